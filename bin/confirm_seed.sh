#!/bin/bash
# bin/confirm_seed.sh <worktree>: run the seed's demo with and without the change, and the pinned suite with it.
WT=$1; cd $WT || exit 2
export GOFLAGS=-mod=mod GOPROXY=off GOSUMDB=off GOTOOLCHAIN=local
CMD=$(python3 -c "import json;print(json.load(open('SEED/meta.json'))['demo_cmd'])")
echo "== status:"; git status --short | grep -v SEED
echo "== demo WITH change"; (timeout 600 bash -c "$CMD" 2>&1 | grep -E "^(ok|FAIL|---|PASS|panic)" | head -8)
git apply -R SEED/patch.diff || { echo "cannot reverse patch"; exit 2; }
echo "== demo WITHOUT change"; (timeout 600 bash -c "$CMD" 2>&1 | grep -E "^(ok|FAIL|---|PASS|panic)" | head -8)
git apply SEED/patch.diff
echo "== pinned suite WITH change"; timeout 900 go test -vet=off -count=1 ./codec ./socket ./utils ./xfer/gzip ./mixer/websocket/websocket 2>&1 | tail -5
