#!/bin/bash
# bin/try_seeded.sh <patch.diff> <Cxx> [tier]  - apply a seeded defect to /repo, run the check, undo it. Exit status of the check.
set -u
P=$1; PROP=$2; TIER=${3:-quick}
git -C /repo diff --quiet || { echo "try_seeded: /repo has local changes" >&2; exit 2; }
git -C /repo apply "$P" || { echo "try_seeded: patch does not apply" >&2; exit 2; }
trap 'git -C /repo checkout -- . >/dev/null 2>&1' EXIT
/verif/bin/check $PROP $TIER
