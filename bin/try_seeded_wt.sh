#!/bin/bash
# bin/try_seeded_wt.sh <worktree-with-change-applied> <Cxx> [tier]
# Run a check against a scratch worktree instead of /repo (VERIF_REPO), leaving /repo and the evidence file untouched.
set -u
WT=$1; PROP=$2; TIER=${3:-quick}
EV=/verif/evidence/$PROP.json
[ -f "$EV" ] && cp "$EV" "$EV.keep"
VERIF_REPO=$WT /verif/bin/check $PROP $TIER
rc=$?
[ -f "$EV.keep" ] && mv "$EV.keep" "$EV"
exit $rc
