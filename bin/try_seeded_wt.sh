#!/bin/bash
# bin/try_seeded_wt.sh <worktree-with-change-applied> <Cxx> [tier]
# Run a check against a scratch worktree instead of /repo (VERIF_REPO), leaving /repo and /verif/evidence untouched.
set -u
WT=$1; PROP=$2; TIER=${3:-quick}
VERIF_REPO=$WT VERIF_EVIDENCE_DIR=/tmp/verif-scratch-evidence /verif/bin/check $PROP $TIER
