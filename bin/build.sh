#!/bin/bash
# Build the simulation binary from /repo's CURRENT working tree.
#   bin/build.sh [race]   -> prints the path of the binary on the last line of stdout
# Steps: copy the tree to a scratch dir outside /repo and /verif, instrument the copy
# (tools/instrument), build the harness against it with -tags verif, remove the scratch dir.
# A content hash of the copied tree keys a small cache under /verif/.build so that the
# checks run one after another on the same tree share one build.
# Exit status 2 on any build trouble (never a VIOLATION).
set -u
VERIF=/verif
REPO=${VERIF_REPO:-/repo}
MODE=${1:-norace}
export GOFLAGS=-mod=mod GOPROXY=off GOSUMDB=off GOTOOLCHAIN=local GONOSUMDB='*' GONOSUMCHECK=1 GOWORK=off
GO=/opt/veriftools/go1.26.8/bin/go
[ -x "$GO" ] || GO=$(command -v go1.26.8)
[ -n "$GO" ] || { echo "build: go1.26.8 not found" >&2; exit 2; }
mkdir -p $VERIF/.build
SCR=$(mktemp -d /tmp/verif-build.XXXXXX) || exit 2
trap 'rm -rf "$SCR"' EXIT
fail() { echo "build: $*" >&2; exit 2; }

rsync -a --exclude .git --exclude examples --exclude 'socket/example' --exclude 'mixer/evio' --exclude 'mixer/multiclient' \
  --exclude '*_test.go' "$REPO"/ "$SCR/repo/" || fail "copy failed"
# hash of the copied tree + of the harness sources
H=$( (cd "$SCR/repo" && find . -type f | LC_ALL=C sort | xargs sha1sum; cd $VERIF && find simrt simnet world props tools runner -name '*.go' 2>/dev/null | LC_ALL=C sort | xargs sha1sum; echo $MODE) | sha1sum | cut -c1-16)
OUT=$VERIF/.build/simtest-$MODE-$H
if [ -x "$OUT" ]; then touch "$OUT"; echo "build: cache hit $OUT" >&2; echo "$OUT"; exit 0; fi

[ -x $VERIF/.build/instrument ] && [ $VERIF/.build/instrument -nt $VERIF/tools/instrument/main.go ] || \
  (cd $VERIF && $GO build -o .build/instrument ./tools/instrument) || fail "instrumenter build failed"

DIRS=""
for d in . socket utils xfer xfer/gzip xfer/md5 codec proto/rawproto proto/jsonproto proto/pbproto proto/thriftproto proto/httproto \
         plugin/auth plugin/secure plugin/overloader plugin/proxy plugin/ignorecase plugin/heartbeat plugin/binder \
         mixer/websocket mixer/websocket/jsonSubProto mixer/websocket/pbSubProto mixer/websocket/websocket; do
  [ -d "$SCR/repo/$d" ] && DIRS="$DIRS $SCR/repo/$d"
done
$VERIF/.build/instrument $DIRS >&2 || fail "instrumentation failed"

# scratch module files
# the go line of the scratch go.mod stays as it is (<= 1.16 keeps the unpruned module graph, so indirect deps resolve offline)
printf '\nrequire simrt v0.0.0\n\nreplace simrt => %s/simrt\n' $VERIF >> "$SCR/repo/go.mod"
sed "s#=> /repo#=> $SCR/repo#" $VERIF/go.mod > "$SCR/harness.mod"
cat "$REPO/go.sum" $VERIF/go.sum 2>/dev/null | LC_ALL=C sort -u > "$SCR/harness.sum"

FLAGS="-tags verif -trimpath"
if [ "$MODE" = race ]; then FLAGS="$FLAGS -race -gcflags=all=-d=checkptr=0"; fi
(cd $VERIF && $GO test -c $FLAGS -modfile="$SCR/harness.mod" -o "$OUT.tmp.$$" ./props) >&2 || { rm -f "$OUT.tmp.$$"; fail "harness build failed"; }
mv "$OUT.tmp.$$" "$OUT"
# keep the cache small: beyond the 6 newest binaries, remove those not used for two hours (a thorough run of
# another property may still be executing an older one)
ls -t $VERIF/.build/simtest-* 2>/dev/null | tail -n +7 | while read -r f; do
  [ -n "$(find "$f" -mmin +120 2>/dev/null)" ] && rm -f "$f"
done
echo "$OUT"
