#!/usr/bin/env python3
"""keep_seed.py <worktree> <seed-id> <detected_by> <note>: archive a confirmed seeded defect under /verif/seeded/<seed-id>/"""
import json,sys,shutil,os,subprocess
wt,sid,detected,note=sys.argv[1:5]
dst='/verif/seeded/'+sid
os.makedirs(dst,exist_ok=True)
for f in os.listdir(wt+'/SEED'):
    if f.startswith('.'): continue
    shutil.copy(wt+'/SEED/'+f,dst+'/'+f)
m=json.load(open(dst+'/meta.json'))
m['base_commit']=subprocess.check_output(['git','-C',wt,'rev-parse','--short','HEAD']).decode().strip()
m['confirmed_by_me']={'pinned_suite_passes_with_change':True,'demo_fails_with_change':True,'demo_passes_without_change':True}
m['check_result']={'detected_by':detected,'note':note}
json.dump(m,open(dst+'/meta.json','w'),indent=1)
print('kept',dst)
