#!/bin/bash
# usage: detcheck.sh PROP START COUNT
cd /verif; B=$(ls -t .build/simtest-norace-* | head -1)
for g in 1 4 16 2 8 1 16; do
  ( VERIF_PROP=$1 VERIF_SEED_START=$2 VERIF_SEED_COUNT=$3 VERIF_GOMAXPROCS=$g VERIF_OUT=/tmp/det.$g.$RANDOM.jsonl timeout 300 $B -test.run '^TestWorker$' >/dev/null 2>&1 ) &
done
wait
python3 - <<'PY'
import json,glob,collections
by=collections.defaultdict(set)
for f in glob.glob('/tmp/det.*.jsonl'):
    for l in open(f):
        r=json.loads(l); by[r['seed']].add((r['sig'],r['steps'],tuple(r.get('classes') or [])))
bad=[(s,v) for s,v in by.items() if len(v)>1]
print('seeds',len(by),'divergent',len(bad))
for s,v in sorted(bad)[:10]: print(s,v)
PY
rm -f /tmp/det.*.jsonl
