import json,collections,re,sys
seen=collections.Counter(); ex={}
n=0;steps=0;wall=0;inc=0
for l in open(sys.argv[1]):
    if not l.startswith('{'): continue
    r=json.loads(l); n+=1; steps+=r['steps']; wall+=r['wall_ms']; inc+=1 if r.get('inconclusive') else 0
    for f in r.get('failures',[]):
        cls=f.split(': ')[0]
        m=re.search(r'proto=(\S+) codec=(\S+) pipe=(\S+) route=(\S+) kind=(\S+)\)',f)
        key=(cls, m.group(1) if m else '', m.group(2) if m else '', m.group(5) if m else '')
        seen[key]+=1
        ex.setdefault(key,(r['seed'],f[:600]))
print('runs',n,'steps',steps,'wall_ms',int(wall),'inconclusive',inc)
for k,v in sorted(seen.items()): print(v,k,'\n    ',ex[k])
