#!/bin/bash
# usage: batch.sh PROP START COUNT  -> /tmp/batch.out classification
cd /verif; B=$(ls -t .build/simtest-norace-* | head -1); rm -f /tmp/b.*.jsonl
N=$3; W=8; per=$(( (N+W-1)/W ))
for i in $(seq 0 $((W-1))); do
 ( VERIF_TRACE=1 VERIF_PROP=$1 VERIF_SEED_START=$(($2+i)) VERIF_SEED_STRIDE=$W VERIF_SEED_COUNT=$per VERIF_GOMAXPROCS=1 VERIF_OUT=/tmp/b.$i.jsonl timeout -s QUIT ${4:-120} $B -test.run '^TestWorker$' >/tmp/b.$i.log 2>&1 ) &
done; wait
cat /tmp/b.*.jsonl > /tmp/batch.out
python3 - <<'PY'
import json,collections,re
seen=collections.Counter(); ex={}
n=0;steps=0;wall=0;inc=0;faults=collections.Counter();probes=collections.Counter()
for l in open('/tmp/batch.out'):
    if not l.startswith('{'): continue
    r=json.loads(l); n+=1; steps+=r['steps']; wall+=r['wall_ms']; inc+=1 if r.get('inconclusive') else 0
    for k,v in (r.get('faults') or {}).items(): faults[k]+=v
    for k,v in (r.get('probes') or {}).items(): probes[k]+=v
    for f in r.get('failures',[]):
        cls=f.split(': ')[0]
        seen[cls]+=1
        ex.setdefault(cls,(r['seed'],r.get('cell'),f[:500]))
print('runs',n,'steps',steps,'wall_ms',int(wall),'inconclusive',inc)
print('faults',dict(faults)); print('probes',dict(probes))
for k,v in sorted(seen.items()): print(v,k,'\n    ',ex[k])
PY
grep -l "^panic:\|^fatal error:\|^SIGQUIT" /tmp/b.*.log 2>/dev/null | head -3
