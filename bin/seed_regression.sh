#!/bin/bash
# bin/seed_regression.sh [seed-id ...]   re-check that every archived seeded change is still caught by its check (quick tier).
# For each seed: scratch worktree of /repo at HEAD under /tmp, apply seeded/<id>/patch.diff, run the property's check
# against it (VERIF_REPO; /repo and /verif/evidence are not touched), remove the worktree.  Prints one line per seed.
export GOFLAGS=-mod=mod GOPROXY=off GOSUMDB=off GOTOOLCHAIN=local
cd /verif || exit 2
IDS="$@"; [ -z "$IDS" ] && IDS=$(ls seeded)
rc=0
for id in $IDS; do
  prop=${id%%-*}
  case $id in benign-*) continue;; esac
  rc_prop=$(python3 -c "import json;print(json.load(open('/verif/seeded/$id/meta.json')).get('check_result',{}).get('run_check',''))" 2>/dev/null)
  [ -n "$rc_prop" ] && prop=$rc_prop
  expected=$(python3 -c "import json;print(json.load(open('/verif/seeded/$id/meta.json')).get('check_result',{}).get('expected','caught'))" 2>/dev/null)
  if [ "$expected" = missed ]; then echo "$id MISSED-KNOWN (recorded gap; see meta.json)"; continue; fi
  if [ "$expected" = void ]; then echo "$id VOID (a later fix removed what the change relied on; see meta.json)"; continue; fi
  wt=/tmp/seedreg-$id
  git -C /repo worktree remove --force $wt >/dev/null 2>&1; rm -rf $wt
  git -C /repo worktree add --detach -q $wt HEAD || { echo "$id worktree failed"; rc=2; continue; }
  if ! git -C $wt apply /verif/seeded/$id/patch.diff 2>/tmp/seedreg.err; then
    if ! (cd $wt && patch -p1 -s < /verif/seeded/$id/patch.diff >/tmp/seedreg.err 2>&1); then
      echo "$id PATCH-DOES-NOT-APPLY $(head -1 /tmp/seedreg.err)"; git -C /repo worktree remove --force $wt; rc=2; continue
    fi
  fi
  out=$(bin/try_seeded_wt.sh $wt $prop quick 2>&1); st=$?
  cls=$(echo "$out" | grep -o 'class=[^ ]*' | sort -u | head -3 | tr '\n' ' ')
  case $st in
    1) echo "$id CAUGHT $cls";;
    0) if [ "$expected" = shadowed ]; then echo "$id SHADOWED by an open known finding (expected)"; else echo "$id MISSED"; rc=1; fi;;
    *) echo "$id TROUBLE(exit $st) $(echo "$out" | grep -E 'runner:|build:' | head -1)"; rc=2;;
  esac
  git -C /repo worktree remove --force $wt >/dev/null 2>&1
done
git -C /repo worktree prune
exit $rc
