// Command instrument rewrites a scratch copy of teleport so that every
// synchronisation operation becomes a sim point of /verif/simrt:
//
//   - import "sync"        -> sync "simrt/simsync"
//   - import "sync/atomic" -> atomic "simrt/simatomic"
//   - go f(x)              -> { f', x' := f, x; simrt.Go(func(){ f'(x') }) }   (operands evaluated by the spawner, as the language requires)
//   - time.Sleep           -> simrt.Sleep
//   - goutil.AtomicMap -> simrt.NewMap, goutil.RwMap -> simrt.NewRwMap
//   - coarsetime.CeilingTimeNow / FloorTimeNow -> simrt.CeilingTimeNow / FloorTimeNow (the coarse clock is a
//     real-time ticker started in init, outside any bubble; session-age read deadlines must read the fake clock)
//   - utils.(*ByteBuffer).ChangeLen gets a leading simrt.AllocProbe(newLen)
//
// No expression of teleport is otherwise touched, so a modified tree still instruments.
// Usage: instrument <dir>...   (rewrites non-test .go files in place, non-recursive per dir)
package main

import (
	"bytes"
	"fmt"
	"go/ast"
	"go/format"
	"go/parser"
	"go/token"
	"os"
	"path/filepath"
	"strconv"
	"strings"
)

func main() {
	n := 0
	for _, dir := range os.Args[1:] {
		ents, err := os.ReadDir(dir)
		if err != nil {
			fmt.Fprintln(os.Stderr, "instrument:", err)
			os.Exit(2)
		}
		for _, e := range ents {
			name := e.Name()
			if e.IsDir() || !strings.HasSuffix(name, ".go") || strings.HasSuffix(name, "_test.go") {
				continue
			}
			changed, err := rewrite(filepath.Join(dir, name))
			if err != nil {
				fmt.Fprintln(os.Stderr, "instrument:", err)
				os.Exit(2)
			}
			if changed {
				n++
			}
		}
	}
	fmt.Printf("instrument: %d files rewritten\n", n)
}

type rewriter struct {
	fset     *token.FileSet
	file     *ast.File
	needSim  bool
	changed  bool
	timeName string
	goutil   string
	coarse   string
	tmp      int
}

func importName(f *ast.File, path string) string {
	for _, im := range f.Imports {
		p, _ := strconv.Unquote(im.Path.Value)
		if p == path {
			if im.Name != nil {
				return im.Name.Name
			}
			return path[strings.LastIndex(path, "/")+1:]
		}
	}
	return ""
}

func rewrite(path string) (bool, error) {
	src, err := os.ReadFile(path)
	if err != nil {
		return false, err
	}
	fset := token.NewFileSet()
	f, err := parser.ParseFile(fset, path, src, parser.ParseComments)
	if err != nil {
		return false, err
	}
	rw := &rewriter{fset: fset, file: f}
	rw.timeName = importName(f, "time")
	rw.goutil = importName(f, "github.com/henrylee2cn/goutil")
	rw.coarse = importName(f, "github.com/henrylee2cn/goutil/coarsetime")

	// 1. imports
	for _, im := range f.Imports {
		p, _ := strconv.Unquote(im.Path.Value)
		switch p {
		case "sync":
			if im.Name == nil {
				im.Name = ast.NewIdent("sync")
			}
			im.Path.Value = strconv.Quote("simrt/simsync")
			rw.changed = true
		case "sync/atomic":
			if im.Name == nil {
				im.Name = ast.NewIdent("atomic")
			}
			im.Path.Value = strconv.Quote("simrt/simatomic")
			rw.changed = true
		}
	}

	// 2. statements and selectors
	ast.Inspect(f, func(n ast.Node) bool {
		switch x := n.(type) {
		case *ast.BlockStmt:
			rw.stmts(x.List)
		case *ast.CaseClause:
			rw.stmts(x.Body)
		case *ast.CommClause:
			rw.stmts(x.Body)
		case *ast.LabeledStmt:
			if g, ok := x.Stmt.(*ast.GoStmt); ok {
				x.Stmt = rw.goStmt(g)
			}
		case *ast.SelectorExpr:
			if id, ok := x.X.(*ast.Ident); ok && id.Obj == nil {
				if rw.timeName != "" && id.Name == rw.timeName && x.Sel.Name == "Sleep" {
					id.Name = "simrt"
					rw.needSim, rw.changed = true, true
				}
				if rw.coarse != "" && id.Name == rw.coarse && (x.Sel.Name == "CeilingTimeNow" || x.Sel.Name == "FloorTimeNow") {
					id.Name = "simrt"
					rw.needSim, rw.changed = true, true
				}
				if rw.goutil != "" && id.Name == rw.goutil && (x.Sel.Name == "AtomicMap" || x.Sel.Name == "RwMap") {
					id.Name = "simrt"
					if x.Sel.Name == "RwMap" {
						x.Sel.Name = "NewRwMap" // keeps the readers-writer locking discipline of the original
					} else {
						x.Sel.Name = "NewMap"
					}
					rw.needSim, rw.changed = true, true
				}
			}
		case *ast.FuncDecl:
			if x.Name.Name == "ChangeLen" && x.Recv != nil && f.Name.Name == "utils" && x.Body != nil &&
				len(x.Type.Params.List) == 1 && len(x.Type.Params.List[0].Names) == 1 {
				arg := x.Type.Params.List[0].Names[0].Name
				call := &ast.ExprStmt{X: &ast.CallExpr{
					Fun:  &ast.SelectorExpr{X: ast.NewIdent("simrt"), Sel: ast.NewIdent("AllocProbe")},
					Args: []ast.Expr{ast.NewIdent(arg)},
				}}
				x.Body.List = append([]ast.Stmt{call}, x.Body.List...)
				rw.needSim, rw.changed = true, true
			}
		}
		return true
	})
	if !rw.changed {
		return false, nil
	}
	if rw.needSim {
		addImport(f, "simrt")
	}
	for _, nm := range []struct{ name, path string }{{rw.timeName, "time"}, {rw.goutil, "github.com/henrylee2cn/goutil"}, {rw.coarse, "github.com/henrylee2cn/goutil/coarsetime"}} {
		if nm.name != "" && !usesPkg(f, nm.name) {
			blankImport(f, nm.path)
		}
	}
	var buf bytes.Buffer
	if err := format.Node(&buf, fset, f); err != nil {
		return false, fmt.Errorf("%s: %v", path, err)
	}
	return true, os.WriteFile(path, buf.Bytes(), 0o644)
}

func (rw *rewriter) stmts(list []ast.Stmt) {
	for i, st := range list {
		if g, ok := st.(*ast.GoStmt); ok {
			list[i] = rw.goStmt(g)
		}
	}
}

// goStmt turns `go f(a, b)` into a block that evaluates f, a, b now and hands a
// closure to simrt.Go.
func (rw *rewriter) goStmt(g *ast.GoStmt) ast.Stmt {
	rw.needSim, rw.changed = true, true
	call := g.Call
	simGo := func(fn ast.Expr) ast.Stmt {
		return &ast.ExprStmt{X: &ast.CallExpr{
			Fun:  &ast.SelectorExpr{X: ast.NewIdent("simrt"), Sel: ast.NewIdent("Go")},
			Args: []ast.Expr{fn},
		}}
	}
	if lit, ok := call.Fun.(*ast.FuncLit); ok && len(call.Args) == 0 && lit.Type.Results == nil {
		return simGo(lit)
	}
	rw.tmp++
	pfx := "_simgo" + strconv.Itoa(rw.tmp)
	var lhs, rhs []ast.Expr
	fn := ast.NewIdent(pfx + "f")
	lhs = append(lhs, fn)
	rhs = append(rhs, call.Fun)
	var args []ast.Expr
	for i, a := range call.Args {
		id := ast.NewIdent(pfx + "a" + strconv.Itoa(i))
		lhs = append(lhs, id)
		rhs = append(rhs, a)
		args = append(args, ast.NewIdent(id.Name))
	}
	inner := &ast.CallExpr{Fun: ast.NewIdent(fn.Name), Args: args, Ellipsis: call.Ellipsis}
	closure := &ast.FuncLit{
		Type: &ast.FuncType{Params: &ast.FieldList{}},
		Body: &ast.BlockStmt{List: []ast.Stmt{&ast.ExprStmt{X: inner}}},
	}
	return &ast.BlockStmt{List: []ast.Stmt{
		&ast.AssignStmt{Lhs: lhs, Tok: token.DEFINE, Rhs: rhs},
		simGo(closure),
	}}
}

func usesPkg(f *ast.File, name string) bool {
	used := false
	ast.Inspect(f, func(n ast.Node) bool {
		if s, ok := n.(*ast.SelectorExpr); ok {
			if id, ok := s.X.(*ast.Ident); ok && id.Name == name && id.Obj == nil {
				used = true
			}
		}
		return !used
	})
	return used
}

func blankImport(f *ast.File, path string) {
	for _, im := range f.Imports {
		p, _ := strconv.Unquote(im.Path.Value)
		if p == path {
			im.Name = ast.NewIdent("_")
		}
	}
}

func addImport(f *ast.File, path string) {
	for _, im := range f.Imports {
		p, _ := strconv.Unquote(im.Path.Value)
		if p == path {
			return
		}
	}
	spec := &ast.ImportSpec{Path: &ast.BasicLit{Kind: token.STRING, Value: strconv.Quote(path)}}
	for _, d := range f.Decls {
		if gd, ok := d.(*ast.GenDecl); ok && gd.Tok == token.IMPORT {
			gd.Specs = append(gd.Specs, spec)
			if !gd.Lparen.IsValid() {
				gd.Lparen = gd.Pos()
				gd.Rparen = gd.End()
			}
			f.Imports = append(f.Imports, spec)
			return
		}
	}
	gd := &ast.GenDecl{Tok: token.IMPORT, Specs: []ast.Spec{spec}}
	f.Decls = append([]ast.Decl{gd}, f.Decls...)
	f.Imports = append(f.Imports, spec)
}
