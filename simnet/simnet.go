// Package simnet is the in-memory network of the simulation: net.Conn,
// net.Listener and a dialer whose delivery delays, segmentation and faults are
// decided by the run's PRNG and whose blocking is decided by the simrt scheduler.
//
// A connection is a pair of byte streams.  As with TCP, a live stream is never
// reordered, duplicated or thinned; what the simulator varies is *when* bytes
// become readable, in what pieces, and when and where the stream breaks.
package simnet

import (
	"errors"
	"fmt"
	"io"
	"net"
	"os"
	"sort"
	"time"
	"unsafe"

	"simrt"
)

// Addr is a simulated TCP address.
type Addr struct{ S string }

// Network returns "tcp".
//
//go:norace
func (a Addr) Network() string { return "tcp" }

//go:norace
func (a Addr) String() string { return a.S }

// Error is the error type of injected faults.
type Error struct {
	Msg       string
	IsTimeout bool
	IsTemp    bool
}

//go:norace
func (e *Error) Error() string { return e.Msg }

//go:norace
func (e *Error) Timeout() bool { return e.IsTimeout }

//go:norace
func (e *Error) Temporary() bool { return e.IsTemp }

//go:norace
func (e *Error) Unwrap() error {
	if e.IsTimeout {
		return os.ErrDeadlineExceeded
	}
	return nil
}

// Errors returned by simulated connections.
var (
	ErrReset   = &Error{Msg: "read: connection reset by peer"}
	ErrPipe    = &Error{Msg: "write: broken pipe"}
	ErrClosed  = net.ErrClosed
	ErrRefused = &Error{Msg: "dial: connection refused"}
	ErrTimeout = &Error{Msg: "i/o timeout", IsTimeout: true, IsTemp: true}
	ErrTempAcc = &Error{Msg: "accept: too many open files (injected)", IsTemp: true}
	ErrWrite   = &Error{Msg: "write: injected error"}
)

// Config of the network for one run.
type Config struct {
	MinLatency time.Duration
	Jitter     time.Duration
	// SegMode: 0 = a write is delivered whole; 1 = split at random points;
	// 2 = one byte per segment; 3 = split biased to the first bytes (length prefixes)
	SegMode int
	// Coalesce: probability that a Read returns all ready segments at once
	Coalesce float64
	// WriteErrAfterPeerClose: probability that a write to a peer-closed connection fails
	PipeErrP float64
}

// Stats counts what actually happened.
type Stats struct {
	Conns      int
	BytesSent  int64
	BytesRead  int64
	Segments   int
	Faults     map[string]int
	SplitInLen int // a segment boundary fell inside the first 4 bytes of a write
}

// Net is one simulated network.
type Net struct {
	Cfg       Config
	rng       *simrt.Rand
	nextHost  int
	listeners map[string]*Listener
	Conns     []*Conn // client-side ends, in creation order; Conns[i].Peer is the server side
	St        Stats
	// DialHook, if set, may veto a dial (fault injection); called under the token.
	DialHook func(addr string) error
	// DialLog records every dial attempt: fake time since epoch (ns) and whether it connected.
	DialLog []DialAttempt
}

// DialAttempt is one recorded dial.
type DialAttempt struct {
	At   time.Time
	Addr string
	OK   bool
	Step int // scheduler step at which the attempt was made
}

//go:norace
func curStep() int {
	if s := simrt.Active(); s != nil {
		return s.Stats.Steps
	}
	return 0
}

// New creates a network.
//
//go:norace
func New(cfg Config, rng *simrt.Rand) *Net {
	return &Net{Cfg: cfg, rng: rng, listeners: map[string]*Listener{}, St: Stats{Faults: map[string]int{}}}
}

// Fault counts one fired fault.
//
//go:norace
func (n *Net) Fault(kind string) {
	simrt.QuietBegin()
	n.St.Faults[kind]++
	simrt.QuietEnd()
}

type segment struct {
	data    []byte
	readyAt time.Time
}

// half is one direction of a connection.
type half struct {
	segs      []segment
	lastReady time.Time
	Written   []byte // wire tap: every byte the writer handed over, in order
	Delivered int64  // bytes consumed by the reader
	cutAt     int64  // stream breaks once Delivered reaches cutAt (-1: never)
	fin       bool   // writer closed: EOF after the queue drains
	stallTill time.Time
	corrupt   map[int64]byte // absolute offset -> xor mask, applied on delivery
	DeliverTS []int64        // (offset, nanos) pairs at each delivery - for timing oracles
}

// Conn is one end of a simulated connection.
type Conn struct {
	n          *Net
	ID         int
	Client     bool
	rd, wr     *half
	Peer       *Conn
	local, rem Addr
	closed     bool // closed locally
	reset      bool // connection broken (both ends)
	rdl, wdl   time.Time
	// planned write faults: the k-th write (0-based) fails after writing `n` bytes
	writeFaults map[int]int
	nWrites     int
	Reads       int
	Label       string
	// MutateWrite, if set, may alter the bytes of a Write in flight (after the tap recorded what the
	// endpoint really wrote); it is cleared by returning true.
	MutateWrite func(k int, b []byte) (done bool)
}

// SimLabel describes the connection in stuck-task reports.
//
//go:norace
func (c *Conn) SimLabel() string { return fmt.Sprintf("conn%d/%s", c.ID, c.side()) }

//go:norace
func (c *Conn) side() string {
	if c.Client {
		return "c"
	}
	return "s"
}

// Pair creates a connected pair without a listener (for ServeConn on both ends).
//
//go:norace
func (n *Net) Pair() (client, server *Conn) {
	n.nextHost++
	h := n.nextHost
	ca := Addr{fmt.Sprintf("10.0.%d.%d:%d", h/250, h%250+1, 40000+h)}
	sa := Addr{fmt.Sprintf("10.1.%d.%d:%d", h/250, h%250+1, 9000)}
	return n.pair(ca, sa)
}

//go:norace
func (n *Net) pair(ca, sa Addr) (*Conn, *Conn) {
	a2b := &half{cutAt: -1}
	b2a := &half{cutAt: -1}
	id := len(n.Conns)
	c := &Conn{n: n, ID: id, Client: true, rd: b2a, wr: a2b, local: ca, rem: sa}
	s := &Conn{n: n, ID: id, Client: false, rd: a2b, wr: b2a, local: sa, rem: ca}
	c.Peer, s.Peer = s, c
	n.Conns = append(n.Conns, c)
	n.St.Conns++
	return c, s
}

//go:norace
func (c *Conn) readable(now time.Time) (bool, time.Time) {
	if c.closed || c.reset {
		return true, time.Time{}
	}
	var wake time.Time
	if !c.rdl.IsZero() {
		if !now.Before(c.rdl) {
			return true, time.Time{}
		}
		wake = c.rdl
	}
	h := c.rd
	if h.cutAt >= 0 && h.Delivered >= h.cutAt {
		return true, time.Time{}
	}
	if len(h.segs) > 0 {
		at := h.segs[0].readyAt
		if at.Before(h.stallTill) {
			at = h.stallTill
		}
		if !now.Before(at) {
			return true, time.Time{}
		}
		if wake.IsZero() || at.Before(wake) {
			wake = at
		}
		return false, wake
	}
	if h.fin {
		return true, time.Time{}
	}
	return false, wake
}

// Read implements net.Conn.
//
//go:norace
func (c *Conn) Read(b []byte) (int, error) {
	simrt.Point(simrt.KNetRead, c, c.readable)
	// the simulated wire is invisible to the race detector (it orders nothing: the Go memory model gives no
	// edge through a network); the accesses to the caller's buffer are declared like syscall.Read does
	simrt.QuietBegin()
	n, err := c.read(b)
	simrt.QuietEnd()
	if n > 0 {
		simrt.RaceWriteRange(unsafe.Pointer(&b[0]), n)
	}
	return n, err
}

//go:norace
func (c *Conn) read(b []byte) (int, error) {
	c.Reads++
	now := time.Now()
	if c.closed {
		return 0, &net.OpError{Op: "read", Net: "tcp", Err: ErrClosed}
	}
	if c.reset {
		return 0, &net.OpError{Op: "read", Net: "tcp", Err: ErrReset}
	}
	h := c.rd
	if h.cutAt >= 0 && h.Delivered >= h.cutAt {
		c.breakBoth("cut")
		return 0, &net.OpError{Op: "read", Net: "tcp", Err: ErrReset}
	}
	if len(h.segs) > 0 && !now.Before(h.segs[0].readyAt) && !now.Before(h.stallTill) {
		if len(b) == 0 {
			return 0, nil
		}
		n := 0
		coalesce := c.n.rng.Chance(c.n.Cfg.Coalesce)
		for len(h.segs) > 0 && n < len(b) && !now.Before(h.segs[0].readyAt) {
			sg := &h.segs[0]
			k := quietCopy(b[n:], sg.data)
			if h.cutAt >= 0 && h.Delivered+int64(k) > h.cutAt {
				k = int(h.cutAt - h.Delivered)
			}
			for i := 0; i < k; i++ {
				if m, ok := h.corrupt[h.Delivered+int64(i)]; ok {
					b[n+i] ^= m
					c.n.Fault("corrupt")
					delete(h.corrupt, h.Delivered+int64(i))
				}
			}
			n += k
			h.Delivered += int64(k)
			sg.data = sg.data[k:]
			if len(sg.data) == 0 {
				h.segs = h.segs[1:]
			}
			if h.cutAt >= 0 && h.Delivered >= h.cutAt {
				break
			}
			if !coalesce {
				break
			}
		}
		c.n.St.BytesRead += int64(n)
		if n == 0 {
			c.breakBoth("cut")
			return 0, &net.OpError{Op: "read", Net: "tcp", Err: ErrReset}
		}
		return n, nil
	}
	if len(h.segs) == 0 && h.fin {
		return 0, io.EOF
	}
	if !c.rdl.IsZero() && !now.Before(c.rdl) {
		return 0, &net.OpError{Op: "read", Net: "tcp", Err: ErrTimeout}
	}
	// woken without anything to report (e.g. deadline moved): behave like a spurious timeout-free retry
	simrt.Point(simrt.KNetRead, c, c.readable)
	return c.read(b)
}

//go:norace
func (c *Conn) breakBoth(kind string) {
	if !c.reset {
		c.n.Fault(kind)
	}
	c.reset = true
	c.Peer.reset = true
}

//go:norace
func (c *Conn) latency() time.Duration {
	d := c.n.Cfg.MinLatency
	if c.n.Cfg.Jitter > 0 {
		d += time.Duration(c.n.rng.Uint64() % uint64(c.n.Cfg.Jitter+1))
	}
	return d
}

// Write implements net.Conn.  It never blocks: bytes are queued for later delivery.
//
//go:norace
func (c *Conn) Write(b []byte) (int, error) {
	simrt.Point(simrt.KNetWrite, c, nil)
	if len(b) > 0 {
		simrt.RaceReadRange(unsafe.Pointer(&b[0]), len(b))
	}
	simrt.QuietBegin()
	n, err := c.write(b)
	simrt.QuietEnd()
	return n, err
}

//go:norace
func (c *Conn) write(b []byte) (int, error) {
	now := time.Now()
	if c.closed {
		return 0, &net.OpError{Op: "write", Net: "tcp", Err: ErrClosed}
	}
	if c.reset {
		return 0, &net.OpError{Op: "write", Net: "tcp", Err: ErrPipe}
	}
	if !c.wdl.IsZero() && !now.Before(c.wdl) {
		return 0, &net.OpError{Op: "write", Net: "tcp", Err: ErrTimeout}
	}
	k := c.nWrites
	c.nWrites++
	var werr error
	if n, ok := c.writeFaults[k]; ok {
		if n > len(b) {
			n = len(b)
		}
		b = b[:n]
		werr = &net.OpError{Op: "write", Net: "tcp", Err: ErrWrite}
		c.n.Fault("write_err")
	}
	if c.Peer.closed {
		// the peer is gone: TCP would accept the bytes and answer with RST later
		if c.n.Cfg.PipeErrP > 0 && c.n.rng.Chance(c.n.Cfg.PipeErrP) {
			c.n.Fault("epipe")
			return 0, &net.OpError{Op: "write", Net: "tcp", Err: ErrPipe}
		}
		c.wr.Written = quietAppend(c.wr.Written, b)
		return len(b), werr
	}
	h := c.wr
	h.Written = quietAppend(h.Written, b)
	c.n.St.BytesSent += int64(len(b))
	data := quietAppend(nil, b)
	if c.MutateWrite != nil {
		if c.MutateWrite(k, data) {
			c.MutateWrite = nil
		}
		c.n.Fault("corrupt")
	}
	for len(data) > 0 {
		n := len(data)
		switch c.n.Cfg.SegMode {
		case 1:
			n = 1 + c.n.rng.Intn(len(data))
		case 2:
			n = 1
		case 3:
			if len(data) == len(b) && len(data) > 1 {
				n = 1 + c.n.rng.Intn(min(len(data), 6))
			} else {
				n = 1 + c.n.rng.Intn(len(data))
			}
		}
		if n < len(data) && len(b)-len(data)+n < 4 {
			c.n.St.SplitInLen++
		}
		at := now.Add(c.latency())
		if at.Before(h.lastReady) {
			at = h.lastReady
		}
		h.lastReady = at
		h.segs = append(h.segs, segment{data: data[:n], readyAt: at})
		c.n.St.Segments++
		data = data[n:]
	}
	if werr != nil {
		// a failed write means the connection is broken: the peer still reads what was
		// written before the failure, then sees a reset; this end is dead at once
		c.Peer.rd.cutAt = int64(len(h.Written))
		c.reset = true
		return len(b), werr
	}
	return len(b), nil
}

// Close implements net.Conn: local close; the peer reads EOF after draining.
//
//go:norace
func (c *Conn) Close() error {
	simrt.Point(simrt.KNetClose, c, nil)
	if c.closed {
		return &net.OpError{Op: "close", Net: "tcp", Err: ErrClosed}
	}
	c.closed = true
	c.wr.fin = true
	return nil
}

// LocalAddr implements net.Conn.
//
//go:norace
func (c *Conn) LocalAddr() net.Addr { return c.local }

// RemoteAddr implements net.Conn.
//
//go:norace
func (c *Conn) RemoteAddr() net.Addr { return c.rem }

// SetDeadline implements net.Conn.
//
//go:norace
func (c *Conn) SetDeadline(t time.Time) error { c.rdl, c.wdl = t, t; return nil }

// SetReadDeadline implements net.Conn.
//
//go:norace
func (c *Conn) SetReadDeadline(t time.Time) error { c.rdl = t; return nil }

// SetWriteDeadline implements net.Conn.
//
//go:norace
func (c *Conn) SetWriteDeadline(t time.Time) error { c.wdl = t; return nil }

// ---- fault injection and observation (called by the harness under the token or from scheduler events) ----

// Sent returns the tap of bytes this end has written.
//
//go:norace
func (c *Conn) Sent() []byte { return c.wr.Written }

// Received returns how many bytes this end has consumed.
//
//go:norace
func (c *Conn) Received() int64 { return c.rd.Delivered }

// IsClosed reports a local close.
//
//go:norace
func (c *Conn) IsClosed() bool { return c.closed }

// IsBroken reports an injected break.
//
//go:norace
func (c *Conn) IsBroken() bool { return c.reset }

// CutInboundAt breaks the connection once this end has consumed off bytes in total.
//
//go:norace
func (c *Conn) CutInboundAt(off int64) { c.rd.cutAt = off }

// CutNow breaks the connection immediately (both directions).
//
//go:norace
func (c *Conn) CutNow() { c.breakBoth("cut") }

// HalfClose makes this end's reader see EOF after the queued data although the peer did not close.
//
//go:norace
func (c *Conn) HalfClose() { c.rd.fin = true; c.n.Fault("half_close") }

// StallInbound delivers nothing to this end for d.
//
//go:norace
func (c *Conn) StallInbound(d time.Duration) {
	c.rd.stallTill = time.Now().Add(d)
	c.n.Fault("stall")
}

// CorruptInbound flips bits of the byte at absolute inbound offset off on delivery.
//
//go:norace
func (c *Conn) CorruptInbound(off int64, mask byte) {
	if c.rd.corrupt == nil {
		c.rd.corrupt = map[int64]byte{}
	}
	c.rd.corrupt[off] = mask
}

// FailWrite makes the k-th Write of this end (0-based) deliver only n bytes and return an error.
//
//go:norace
func (c *Conn) FailWrite(k, n int) {
	if c.writeFaults == nil {
		c.writeFaults = map[int]int{}
	}
	c.writeFaults[k] = n
}

// Pending returns the number of undelivered inbound bytes.
//
//go:norace
func (c *Conn) Pending() int {
	n := 0
	for _, s := range c.rd.segs {
		n += len(s.data)
	}
	return n
}

// ---- listener / dialer ----

// Listener is a simulated net.Listener.
type Listener struct {
	n       *Net
	addr    Addr
	queue   []*Conn
	closed  bool
	Down    bool // refuses dials while true
	tmpErrs int  // number of temporary Accept errors to inject
	Refuse  int  // refuse the next k dials
}

// Listen creates a listener at addr ("host:port").
//
//go:norace
func (n *Net) Listen(addr string) (*Listener, error) {
	if l, ok := n.listeners[addr]; ok && !l.closed {
		return nil, errors.New("listen: address already in use")
	}
	l := &Listener{n: n, addr: Addr{addr}}
	n.listeners[addr] = l
	return l, nil
}

// SimLabel describes the listener.
//
//go:norace
func (l *Listener) SimLabel() string { return "listener " + l.addr.S }

// Accept implements net.Listener.
//
//go:norace
func (l *Listener) Accept() (net.Conn, error) {
	simrt.Point(simrt.KNetAccept, l, func(time.Time) (bool, time.Time) {
		return l.closed || len(l.queue) > 0 || l.tmpErrs > 0, time.Time{}
	})
	simrt.QuietBegin()
	defer simrt.QuietEnd()
	if l.closed {
		return nil, &net.OpError{Op: "accept", Net: "tcp", Err: ErrClosed}
	}
	if l.tmpErrs > 0 {
		l.tmpErrs--
		l.n.Fault("accept_tmp_err")
		return nil, &net.OpError{Op: "accept", Net: "tcp", Err: ErrTempAcc}
	}
	c := l.queue[0]
	l.queue = l.queue[1:]
	return c, nil
}

// Close implements net.Listener.
//
//go:norace
func (l *Listener) Close() error {
	simrt.Point(simrt.KNetClose, l, nil)
	simrt.QuietBegin()
	defer simrt.QuietEnd()
	if l.closed {
		return &net.OpError{Op: "close", Net: "tcp", Err: ErrClosed}
	}
	l.closed = true
	// connections still in the backlog are reset
	for _, c := range l.queue {
		c.breakBoth("backlog_reset")
	}
	l.queue = nil
	return nil
}

// Addr implements net.Listener.
//
//go:norace
func (l *Listener) Addr() net.Addr { return l.addr }

// InjectAcceptErrors makes the next k Accept calls fail with a temporary error.
//
//go:norace
func (l *Listener) InjectAcceptErrors(k int) { l.tmpErrs += k }

// Dial connects to a listener.
//
//go:norace
func (n *Net) Dial(addr string) (net.Conn, error) {
	simrt.Point(simrt.KNetDial, nil, nil)
	simrt.QuietBegin()
	defer simrt.QuietEnd()
	if n.DialHook != nil {
		if err := n.DialHook(addr); err != nil {
			n.Fault("dial_hook_reject")
			n.DialLog = append(n.DialLog, DialAttempt{time.Now(), addr, false, curStep()})
			return nil, &net.OpError{Op: "dial", Net: "tcp", Err: err}
		}
	}
	l := n.listeners[addr]
	if l == nil || l.closed || l.Down {
		n.Fault("dial_refuse")
		n.DialLog = append(n.DialLog, DialAttempt{time.Now(), addr, false, curStep()})
		return nil, &net.OpError{Op: "dial", Net: "tcp", Err: ErrRefused}
	}
	if l.Refuse > 0 {
		l.Refuse--
		n.Fault("dial_refuse")
		n.DialLog = append(n.DialLog, DialAttempt{time.Now(), addr, false, curStep()})
		return nil, &net.OpError{Op: "dial", Net: "tcp", Err: ErrRefused}
	}
	n.DialLog = append(n.DialLog, DialAttempt{time.Now(), addr, true, curStep()})
	n.nextHost++
	h := n.nextHost
	ca := Addr{fmt.Sprintf("10.0.%d.%d:%d", h/250, h%250+1, 40000+h)}
	c, s := n.pair(ca, l.addr)
	if t := simrt.Current(); t != nil {
		c.Label = t.Name // who dialled (task role label), so that a harness can find its connection
	}
	l.queue = append(l.queue, s)
	return c, nil
}

// FaultKinds returns the sorted fault kinds that fired.
//
//go:norace
func (n *Net) FaultKinds() []string {
	var ks []string
	for k := range n.St.Faults {
		ks = append(ks, k)
	}
	sort.Strings(ks)
	return ks
}

// quietCopy and quietAppend move bytes without the runtime's copy/growslice, which report to the race
// detector even from //go:norace code: the simulated wire must be invisible to it (see Conn.Read).
//
//go:norace
func quietCopy(dst, src []byte) int {
	n := len(src)
	if len(dst) < n {
		n = len(dst)
	}
	if !simrt.RaceEnabled {
		return copy(dst[:n], src[:n])
	}
	for i := 0; i < n; i++ {
		dst[i] = src[i]
	}
	return n
}

//go:norace
func quietAppend(dst, src []byte) []byte {
	if !simrt.RaceEnabled {
		return append(dst, src...)
	}
	need := len(dst) + len(src)
	if need > cap(dst) {
		nc := 2*cap(dst) + 64
		if nc < need {
			nc = need
		}
		nd := make([]byte, len(dst), nc)
		for i := range dst {
			nd[i] = dst[i]
		}
		dst = nd
	}
	k := len(dst)
	dst = dst[:need]
	for i := range src {
		dst[k+i] = src[i]
	}
	return dst
}
