// Package simsync is a drop-in replacement for the parts of package sync that
// teleport uses.  Inside a simulated run every operation is a sim point and
// blocking is decided by the scheduler; outside a run the real primitives are used.
package simsync

import (
	"sync"
	"sync/atomic"
	"time"
	"unsafe"

	"simrt"
)

// Locker is sync.Locker.
type Locker = sync.Locker

// Mutex replaces sync.Mutex.
type Mutex struct {
	real  sync.Mutex
	held  atomic.Int32
	owner *simrt.Task
}

// SimLabel describes the mutex in stuck-task reports.
//
//go:norace
func (m *Mutex) SimLabel() string {
	if o := m.owner; o != nil && m.held.Load() != 0 {
		return "mutex held by " + o.String()
	}
	return "mutex"
}

//go:norace
func (m *Mutex) free(time.Time) (bool, time.Time) { return m.held.Load() == 0, time.Time{} }

// Lock locks m.
//
//go:norace
func (m *Mutex) Lock() {
	t := simrt.PointT(simrt.KLock, m, m.free)
	if t == nil {
		m.real.Lock()
		m.held.Store(1)
		return
	}
	m.owner = t
	m.held.Store(1)
	simrt.RaceAcquire(unsafe.Pointer(m))
}

// TryLock tries to lock m.
//
//go:norace
func (m *Mutex) TryLock() bool {
	if !simrt.Point(simrt.KLock, m, nil) {
		if m.real.TryLock() {
			m.held.Store(1)
			return true
		}
		return false
	}
	if m.held.Load() != 0 {
		return false
	}
	m.held.Store(1)
	simrt.RaceAcquire(unsafe.Pointer(m))
	return true
}

// Unlock unlocks m.
//
//go:norace
func (m *Mutex) Unlock() {
	if !simrt.Point(simrt.KUnlock, m, nil) {
		m.held.Store(0)
		m.real.Unlock()
		return
	}
	if m.held.Load() == 0 {
		panic("sync: unlock of unlocked mutex")
	}
	simrt.RaceRelease(unsafe.Pointer(m))
	m.held.Store(0)
}

// RWMutex replaces sync.RWMutex (writer preference as in the real one: a
// pending Lock blocks new readers).
type RWMutex struct {
	real     sync.RWMutex
	writer   atomic.Int32
	readers  atomic.Int32
	pendingW atomic.Int32
}

// SimLabel describes the mutex in stuck-task reports.
//
//go:norace
func (m *RWMutex) SimLabel() string { return "rwmutex" }

// Lock locks for writing.
//
//go:norace
func (m *RWMutex) Lock() {
	if simrt.Active() == nil {
		m.real.Lock()
		m.writer.Store(1)
		return
	}
	m.pendingW.Add(1)
	simrt.Point(simrt.KLock, m, func(time.Time) (bool, time.Time) {
		return m.writer.Load() == 0 && m.readers.Load() == 0, time.Time{}
	})
	m.pendingW.Add(-1)
	m.writer.Store(1)
	simrt.RaceAcquire(unsafe.Pointer(m))
	simrt.RaceAcquire(unsafe.Pointer(&m.readers))
}

// Unlock unlocks writing.
//
//go:norace
func (m *RWMutex) Unlock() {
	if !simrt.Point(simrt.KUnlock, m, nil) {
		m.writer.Store(0)
		m.real.Unlock()
		return
	}
	if m.writer.Load() == 0 {
		panic("sync: Unlock of unlocked RWMutex")
	}
	simrt.RaceRelease(unsafe.Pointer(m))
	m.writer.Store(0)
}

// RLock locks for reading.
//
//go:norace
func (m *RWMutex) RLock() {
	if simrt.Active() == nil {
		m.real.RLock()
		m.readers.Add(1)
		return
	}
	simrt.Point(simrt.KRLock, m, func(time.Time) (bool, time.Time) {
		return m.writer.Load() == 0 && m.pendingW.Load() == 0, time.Time{}
	})
	m.readers.Add(1)
	simrt.RaceAcquire(unsafe.Pointer(m))
}

// RUnlock unlocks reading.
//
//go:norace
func (m *RWMutex) RUnlock() {
	if !simrt.Point(simrt.KRUnlock, m, nil) {
		m.readers.Add(-1)
		m.real.RUnlock()
		return
	}
	if m.readers.Load() <= 0 {
		panic("sync: RUnlock of unlocked RWMutex")
	}
	simrt.RaceReleaseMerge(unsafe.Pointer(&m.readers))
	m.readers.Add(-1)
}

// RLocker returns a Locker for the read side.
//
//go:norace
func (m *RWMutex) RLocker() Locker { return (*rlocker)(m) }

type rlocker RWMutex

//go:norace
func (r *rlocker) Lock() { (*RWMutex)(r).RLock() }

//go:norace
func (r *rlocker) Unlock() { (*RWMutex)(r).RUnlock() }

// WaitGroup replaces sync.WaitGroup.
type WaitGroup struct {
	n       atomic.Int64
	waiters atomic.Int32
	mu      sync.Mutex
	cond    *sync.Cond
	sema    uint32 // never accessed: the address carries the misuse model of the race detector
}

// SimLabel describes the wait group in stuck-task reports.
//
//go:norace
func (wg *WaitGroup) SimLabel() string { return "waitgroup" }

// Add adds delta to the counter.  Add, Done and Wait are thin instrumented wrappers (they touch no memory
// themselves) around //go:norace bodies: an instrumented callee is what records the caller's call site in
// the race detector's shadow stack, so reports of the misuse model name the function that called Add/Wait.
//
//go:noinline
func (wg *WaitGroup) Add(delta int) { wg.add(delta) }

//go:norace
func (wg *WaitGroup) add(delta int) {
	if !simrt.Point(simrt.KWgAdd, wg, nil) {
		wg.mu.Lock()
		v := wg.n.Add(int64(delta))
		if v < 0 {
			wg.mu.Unlock()
			panic("sync: negative WaitGroup counter")
		}
		if v == 0 && wg.cond != nil {
			wg.cond.Broadcast()
		}
		wg.mu.Unlock()
		return
	}
	if delta < 0 {
		simrt.RaceReleaseMerge(unsafe.Pointer(wg))
	}
	v := wg.n.Add(int64(delta))
	if v < 0 {
		panic("sync: negative WaitGroup counter")
	}
	if delta > 0 && v == int64(delta) {
		// as in the real WaitGroup under -race: the first increment must be synchronised with Wait
		wgAddFromZero(unsafe.Pointer(&wg.sema))
	}
}

// wgAddFromZero and wgFirstWait are deliberately NOT //go:norace: their frames mark a race report as the
// WaitGroup-misuse model ("Add from zero must happen before Wait") rather than a data race on memory.
//
//go:noinline
func wgAddFromZero(p unsafe.Pointer) { simrt.RaceRead(p) }

//go:noinline
func wgFirstWait(p unsafe.Pointer) { simrt.RaceWrite(p) }

// Done decrements the counter.
//
//go:noinline
func (wg *WaitGroup) Done() { wg.add(-1) }

// Wait blocks until the counter is zero.
//
//go:noinline
func (wg *WaitGroup) Wait() { wg.wait() }

//go:norace
func (wg *WaitGroup) wait() {
	if simrt.Active() == nil {
		wg.mu.Lock()
		if wg.cond == nil {
			wg.cond = sync.NewCond(&wg.mu)
		}
		for wg.n.Load() != 0 {
			wg.cond.Wait()
		}
		wg.mu.Unlock()
		return
	}
	if wg.n.Load() != 0 && wg.waiters.Load() == 0 {
		// as in the real WaitGroup under -race: a Wait that has to wait is modelled as a write (first waiter only)
		wgFirstWait(unsafe.Pointer(&wg.sema))
	}
	wg.waiters.Add(1)
	simrt.Point(simrt.KWgWait, wg, func(time.Time) (bool, time.Time) { return wg.n.Load() == 0, time.Time{} })
	wg.waiters.Add(-1)
	simrt.RaceAcquire(unsafe.Pointer(wg))
}

// Once replaces sync.Once.
type Once struct {
	real sync.Once
	m    Mutex
	done atomic.Int32
}

// Do calls f once.
//
//go:norace
func (o *Once) Do(f func()) {
	if simrt.Active() == nil {
		o.real.Do(func() {
			if o.done.Load() == 0 {
				defer o.done.Store(1)
				f()
			}
		})
		return
	}
	if o.done.Load() == 1 {
		simrt.RaceAcquire(unsafe.Pointer(o))
		return
	}
	o.m.Lock()
	defer o.m.Unlock()
	if o.done.Load() == 0 {
		defer func() {
			simrt.RaceRelease(unsafe.Pointer(o))
			o.done.Store(1)
		}()
		f()
	}
}

// Pool replaces sync.Pool with a deterministic pool (see simrt.PoolGet).
type Pool struct {
	New func() any
	st  simrt.PoolState
}

// Get takes an object from the pool.
//
//go:norace
func (p *Pool) Get() any {
	simrt.Point(simrt.KPoolGet, p, nil)
	if x, ok := p.st.Get(); ok {
		simrt.RaceAcquire(unsafe.Pointer(&p.st))
		return x
	}
	if p.New != nil {
		return p.New()
	}
	return nil
}

// Put returns an object to the pool.
//
//go:norace
func (p *Pool) Put(x any) {
	if x == nil {
		return
	}
	simrt.Point(simrt.KPoolPut, p, nil)
	simrt.RaceReleaseMerge(unsafe.Pointer(&p.st))
	p.st.Put(x)
}

// Map is sync.Map (not instrumented: teleport does not use it directly).
type Map = sync.Map

// Cond is sync.Cond (not instrumented: teleport does not use it).
type Cond = sync.Cond

// NewCond is sync.NewCond.
//
//go:norace
func NewCond(l Locker) *Cond { return sync.NewCond(l) }
