// Package simsync is a drop-in replacement for the parts of package sync that
// teleport uses.  Inside a simulated run every operation is a sim point and
// blocking is decided by the scheduler; outside a run the real primitives are used.
package simsync

import (
	"sync"
	"sync/atomic"
	"time"
	"unsafe"

	"simrt"
)

// Locker is sync.Locker.
type Locker = sync.Locker

// Mutex replaces sync.Mutex.
type Mutex struct {
	real  sync.Mutex
	held  atomic.Int32
	owner *simrt.Task
}

// SimLabel describes the mutex in stuck-task reports.
func (m *Mutex) SimLabel() string {
	if o := m.owner; o != nil && m.held.Load() != 0 {
		return "mutex held by " + o.String()
	}
	return "mutex"
}

func (m *Mutex) free(time.Time) (bool, time.Time) { return m.held.Load() == 0, time.Time{} }

// Lock locks m.
func (m *Mutex) Lock() {
	t := simrt.PointT(simrt.KLock, m, m.free)
	if t == nil {
		m.real.Lock()
		m.held.Store(1)
		return
	}
	m.owner = t
	m.held.Store(1)
	simrt.RaceAcquire(unsafe.Pointer(m))
}

// TryLock tries to lock m.
func (m *Mutex) TryLock() bool {
	if !simrt.Point(simrt.KLock, m, nil) {
		if m.real.TryLock() {
			m.held.Store(1)
			return true
		}
		return false
	}
	if m.held.Load() != 0 {
		return false
	}
	m.held.Store(1)
	simrt.RaceAcquire(unsafe.Pointer(m))
	return true
}

// Unlock unlocks m.
func (m *Mutex) Unlock() {
	if !simrt.Point(simrt.KUnlock, m, nil) {
		m.held.Store(0)
		m.real.Unlock()
		return
	}
	if m.held.Load() == 0 {
		panic("sync: unlock of unlocked mutex")
	}
	simrt.RaceRelease(unsafe.Pointer(m))
	m.held.Store(0)
}

// RWMutex replaces sync.RWMutex (writer preference as in the real one: a
// pending Lock blocks new readers).
type RWMutex struct {
	real     sync.RWMutex
	writer   atomic.Int32
	readers  atomic.Int32
	pendingW atomic.Int32
}

// SimLabel describes the mutex in stuck-task reports.
func (m *RWMutex) SimLabel() string { return "rwmutex" }

// Lock locks for writing.
func (m *RWMutex) Lock() {
	if simrt.Active() == nil {
		m.real.Lock()
		m.writer.Store(1)
		return
	}
	m.pendingW.Add(1)
	simrt.Point(simrt.KLock, m, func(time.Time) (bool, time.Time) {
		return m.writer.Load() == 0 && m.readers.Load() == 0, time.Time{}
	})
	m.pendingW.Add(-1)
	m.writer.Store(1)
	simrt.RaceAcquire(unsafe.Pointer(m))
}

// Unlock unlocks writing.
func (m *RWMutex) Unlock() {
	if !simrt.Point(simrt.KUnlock, m, nil) {
		m.writer.Store(0)
		m.real.Unlock()
		return
	}
	if m.writer.Load() == 0 {
		panic("sync: Unlock of unlocked RWMutex")
	}
	simrt.RaceRelease(unsafe.Pointer(m))
	m.writer.Store(0)
}

// RLock locks for reading.
func (m *RWMutex) RLock() {
	if simrt.Active() == nil {
		m.real.RLock()
		m.readers.Add(1)
		return
	}
	simrt.Point(simrt.KRLock, m, func(time.Time) (bool, time.Time) {
		return m.writer.Load() == 0 && m.pendingW.Load() == 0, time.Time{}
	})
	m.readers.Add(1)
	simrt.RaceAcquire(unsafe.Pointer(m))
}

// RUnlock unlocks reading.
func (m *RWMutex) RUnlock() {
	if !simrt.Point(simrt.KRUnlock, m, nil) {
		m.readers.Add(-1)
		m.real.RUnlock()
		return
	}
	if m.readers.Load() <= 0 {
		panic("sync: RUnlock of unlocked RWMutex")
	}
	simrt.RaceReleaseMerge(unsafe.Pointer(&m.readers))
	m.readers.Add(-1)
}

// RLocker returns a Locker for the read side.
func (m *RWMutex) RLocker() Locker { return (*rlocker)(m) }

type rlocker RWMutex

func (r *rlocker) Lock()   { (*RWMutex)(r).RLock() }
func (r *rlocker) Unlock() { (*RWMutex)(r).RUnlock() }

// WaitGroup replaces sync.WaitGroup.
type WaitGroup struct {
	n       atomic.Int64
	waiters atomic.Int32
	mu      sync.Mutex
	cond    *sync.Cond
}

// SimLabel describes the wait group in stuck-task reports.
func (wg *WaitGroup) SimLabel() string { return "waitgroup" }

// Add adds delta to the counter.
func (wg *WaitGroup) Add(delta int) {
	if !simrt.Point(simrt.KWgAdd, wg, nil) {
		wg.mu.Lock()
		v := wg.n.Add(int64(delta))
		if v < 0 {
			wg.mu.Unlock()
			panic("sync: negative WaitGroup counter")
		}
		if v == 0 && wg.cond != nil {
			wg.cond.Broadcast()
		}
		wg.mu.Unlock()
		return
	}
	if delta > 0 && wg.n.Load() == 0 && wg.waiters.Load() > 0 {
		// the documented misuse: Add from zero concurrent with Wait
		simrt.RaceWrite(unsafe.Pointer(&wg.waiters))
	}
	if delta < 0 {
		simrt.RaceReleaseMerge(unsafe.Pointer(wg))
	}
	v := wg.n.Add(int64(delta))
	if v < 0 {
		panic("sync: negative WaitGroup counter")
	}
}

// Done decrements the counter.
func (wg *WaitGroup) Done() { wg.Add(-1) }

// Wait blocks until the counter is zero.
func (wg *WaitGroup) Wait() {
	if simrt.Active() == nil {
		wg.mu.Lock()
		if wg.cond == nil {
			wg.cond = sync.NewCond(&wg.mu)
		}
		for wg.n.Load() != 0 {
			wg.cond.Wait()
		}
		wg.mu.Unlock()
		return
	}
	wg.waiters.Add(1)
	if wg.n.Load() != 0 {
		simrt.RaceRead(unsafe.Pointer(&wg.waiters))
	}
	simrt.Point(simrt.KWgWait, wg, func(time.Time) (bool, time.Time) { return wg.n.Load() == 0, time.Time{} })
	wg.waiters.Add(-1)
	simrt.RaceAcquire(unsafe.Pointer(wg))
}

// Once replaces sync.Once.
type Once struct {
	real sync.Once
	m    Mutex
	done atomic.Int32
}

// Do calls f once.
func (o *Once) Do(f func()) {
	if simrt.Active() == nil {
		o.real.Do(func() {
			if o.done.Load() == 0 {
				defer o.done.Store(1)
				f()
			}
		})
		return
	}
	if o.done.Load() == 1 {
		simrt.RaceAcquire(unsafe.Pointer(o))
		return
	}
	o.m.Lock()
	defer o.m.Unlock()
	if o.done.Load() == 0 {
		defer func() {
			simrt.RaceRelease(unsafe.Pointer(o))
			o.done.Store(1)
		}()
		f()
	}
}

// Pool replaces sync.Pool with a deterministic pool (see simrt.PoolGet).
type Pool struct {
	New func() any
	st  simrt.PoolState
}

// Get takes an object from the pool.
func (p *Pool) Get() any {
	simrt.Point(simrt.KPoolGet, p, nil)
	if x, ok := p.st.Get(); ok {
		simrt.RaceAcquire(unsafe.Pointer(&p.st))
		return x
	}
	if p.New != nil {
		return p.New()
	}
	return nil
}

// Put returns an object to the pool.
func (p *Pool) Put(x any) {
	if x == nil {
		return
	}
	simrt.Point(simrt.KPoolPut, p, nil)
	simrt.RaceReleaseMerge(unsafe.Pointer(&p.st))
	p.st.Put(x)
}

// Map is sync.Map (not instrumented: teleport does not use it directly).
type Map = sync.Map

// Cond is sync.Cond (not instrumented: teleport does not use it).
type Cond = sync.Cond

// NewCond is sync.NewCond.
func NewCond(l Locker) *Cond { return sync.NewCond(l) }
