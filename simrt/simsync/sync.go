// Package simsync is a drop-in replacement for the parts of package sync that
// teleport uses.  Inside a simulated run every operation is a sim point and
// blocking is decided by the scheduler; outside a run the real primitives are used.
package simsync

import (
	"sync"
	"sync/atomic"
	"time"
	"unsafe"

	"simrt"
)

// Locker is sync.Locker.
type Locker = sync.Locker

// Mutex replaces sync.Mutex.
type Mutex struct {
	real  sync.Mutex
	held  atomic.Int32
	owner *simrt.Task
}

// SimLabel describes the mutex in stuck-task reports.
//
//go:norace
func (m *Mutex) SimLabel() string {
	if o := m.owner; o != nil && ql32(&m.held) != 0 {
		return "mutex held by " + o.String()
	}
	return "mutex"
}

//go:norace
func (m *Mutex) free(time.Time) (bool, time.Time) { return ql32(&m.held) == 0, time.Time{} }

// Lock locks m.
//
//go:norace
func (m *Mutex) Lock() {
	t := simrt.PointT(simrt.KLock, m, m.free)
	if t == nil {
		m.real.Lock()
		qs32(&m.held, 1)
		return
	}
	m.owner = t
	qs32(&m.held, 1)
	simrt.RaceAcquire(unsafe.Pointer(m))
}

// TryLock tries to lock m.
//
//go:norace
func (m *Mutex) TryLock() bool {
	if !simrt.Point(simrt.KLock, m, nil) {
		if m.real.TryLock() {
			qs32(&m.held, 1)
			return true
		}
		return false
	}
	if ql32(&m.held) != 0 {
		return false
	}
	qs32(&m.held, 1)
	simrt.RaceAcquire(unsafe.Pointer(m))
	return true
}

// Unlock unlocks m.
//
//go:norace
func (m *Mutex) Unlock() {
	if !simrt.Point(simrt.KUnlock, m, nil) {
		qs32(&m.held, 0)
		m.real.Unlock()
		return
	}
	if ql32(&m.held) == 0 {
		panic("sync: unlock of unlocked mutex")
	}
	simrt.RaceRelease(unsafe.Pointer(m))
	qs32(&m.held, 0)
}

// RWMutex replaces sync.RWMutex (writer preference as in the real one: a
// pending Lock blocks new readers).
type RWMutex struct {
	real     sync.RWMutex
	writer   atomic.Int32
	readers  atomic.Int32
	pendingW atomic.Int32
}

// SimLabel describes the mutex in stuck-task reports.
//
//go:norace
func (m *RWMutex) SimLabel() string { return "rwmutex" }

// Lock locks for writing.
//
//go:norace
func (m *RWMutex) Lock() {
	if simrt.Active() == nil {
		m.real.Lock()
		qs32(&m.writer, 1)
		return
	}
	qa32(&m.pendingW, 1)
	simrt.Point(simrt.KLock, m, func(time.Time) (bool, time.Time) {
		return ql32(&m.writer) == 0 && ql32(&m.readers) == 0, time.Time{}
	})
	qa32(&m.pendingW, -1)
	qs32(&m.writer, 1)
	simrt.RaceAcquire(unsafe.Pointer(m))
	simrt.RaceAcquire(unsafe.Pointer(&m.readers))
}

// Unlock unlocks writing.
//
//go:norace
func (m *RWMutex) Unlock() {
	if !simrt.Point(simrt.KUnlock, m, nil) {
		qs32(&m.writer, 0)
		m.real.Unlock()
		return
	}
	if ql32(&m.writer) == 0 {
		panic("sync: Unlock of unlocked RWMutex")
	}
	simrt.RaceRelease(unsafe.Pointer(m))
	qs32(&m.writer, 0)
}

// RLock locks for reading.
//
//go:norace
func (m *RWMutex) RLock() {
	if simrt.Active() == nil {
		m.real.RLock()
		qa32(&m.readers, 1)
		return
	}
	simrt.Point(simrt.KRLock, m, func(time.Time) (bool, time.Time) {
		return ql32(&m.writer) == 0 && ql32(&m.pendingW) == 0, time.Time{}
	})
	qa32(&m.readers, 1)
	simrt.RaceAcquire(unsafe.Pointer(m))
}

// RUnlock unlocks reading.
//
//go:norace
func (m *RWMutex) RUnlock() {
	if !simrt.Point(simrt.KRUnlock, m, nil) {
		qa32(&m.readers, -1)
		m.real.RUnlock()
		return
	}
	if ql32(&m.readers) <= 0 {
		panic("sync: RUnlock of unlocked RWMutex")
	}
	simrt.RaceReleaseMerge(unsafe.Pointer(&m.readers))
	qa32(&m.readers, -1)
}

// RLocker returns a Locker for the read side.
//
//go:norace
func (m *RWMutex) RLocker() Locker { return (*rlocker)(m) }

type rlocker RWMutex

//go:norace
func (r *rlocker) Lock() { (*RWMutex)(r).RLock() }

//go:norace
func (r *rlocker) Unlock() { (*RWMutex)(r).RUnlock() }

// WaitGroup replaces sync.WaitGroup.
type WaitGroup struct {
	n       atomic.Int64
	waiters atomic.Int32
	mu      sync.Mutex
	cond    *sync.Cond
	sema    uint32 // never accessed: the address carries the misuse model of the race detector
}

// SimLabel describes the wait group in stuck-task reports.
//
//go:norace
func (wg *WaitGroup) SimLabel() string { return "waitgroup" }

// Add adds delta to the counter.  Add, Done and Wait are thin instrumented wrappers (they touch no memory
// themselves) around //go:norace bodies: an instrumented callee is what records the caller's call site in
// the race detector's shadow stack, so reports of the misuse model name the function that called Add/Wait.
//
//go:noinline
func (wg *WaitGroup) Add(delta int) { wg.add(delta) }

//go:norace
func (wg *WaitGroup) add(delta int) {
	if !simrt.Point(simrt.KWgAdd, wg, nil) {
		wg.mu.Lock()
		v := qa64(&wg.n, int64(delta))
		if v < 0 {
			wg.mu.Unlock()
			panic("sync: negative WaitGroup counter")
		}
		if v == 0 && wg.cond != nil {
			wg.cond.Broadcast()
		}
		wg.mu.Unlock()
		return
	}
	if delta < 0 {
		simrt.RaceReleaseMerge(unsafe.Pointer(wg))
	}
	v := qa64(&wg.n, int64(delta))
	if v < 0 {
		panic("sync: negative WaitGroup counter")
	}
	if delta > 0 && v == int64(delta) {
		// as in the real WaitGroup under -race: the first increment must be synchronised with Wait
		wgAddFromZero(unsafe.Pointer(&wg.sema))
	}
}

// wgAddFromZero and wgFirstWait are deliberately NOT //go:norace: their frames mark a race report as the
// WaitGroup-misuse model ("Add from zero must happen before Wait") rather than a data race on memory.
//
//go:noinline
func wgAddFromZero(p unsafe.Pointer) { simrt.RaceRead(p) }

//go:noinline
func wgFirstWait(p unsafe.Pointer) { simrt.RaceWrite(p) }

// Done decrements the counter.
//
//go:noinline
func (wg *WaitGroup) Done() { wg.add(-1) }

// Wait blocks until the counter is zero.
//
//go:noinline
func (wg *WaitGroup) Wait() { wg.wait() }

//go:norace
func (wg *WaitGroup) wait() {
	if simrt.Active() == nil {
		wg.mu.Lock()
		if wg.cond == nil {
			wg.cond = sync.NewCond(&wg.mu)
		}
		for ql64(&wg.n) != 0 {
			wg.cond.Wait()
		}
		wg.mu.Unlock()
		return
	}
	if ql64(&wg.n) != 0 && ql32(&wg.waiters) == 0 {
		// as in the real WaitGroup under -race: a Wait that has to wait is modelled as a write (first waiter only)
		wgFirstWait(unsafe.Pointer(&wg.sema))
	}
	qa32(&wg.waiters, 1)
	simrt.Point(simrt.KWgWait, wg, func(time.Time) (bool, time.Time) { return ql64(&wg.n) == 0, time.Time{} })
	qa32(&wg.waiters, -1)
	simrt.RaceAcquire(unsafe.Pointer(wg))
}

// Once replaces sync.Once.
type Once struct {
	real sync.Once
	m    Mutex
	done atomic.Int32
}

// Do calls f once.
//
//go:norace
func (o *Once) Do(f func()) {
	if simrt.Active() == nil {
		o.real.Do(func() {
			if ql32(&o.done) == 0 {
				defer qs32(&o.done, 1)
				f()
			}
		})
		return
	}
	if ql32(&o.done) == 1 {
		simrt.RaceAcquire(unsafe.Pointer(o))
		return
	}
	o.m.Lock()
	defer o.m.Unlock()
	if ql32(&o.done) == 0 {
		defer func() {
			simrt.RaceRelease(unsafe.Pointer(o))
			qs32(&o.done, 1)
		}()
		f()
	}
}

// Pool replaces sync.Pool with a deterministic pool (see simrt.PoolGet).
type Pool struct {
	New func() any
	st  simrt.PoolState
}

// Get takes an object from the pool.
//
//go:norace
func (p *Pool) Get() any {
	simrt.Point(simrt.KPoolGet, p, nil)
	if x, ok := p.st.Get(); ok {
		simrt.RaceAcquire(unsafe.Pointer(&p.st))
		return x
	}
	if p.New != nil {
		return p.New()
	}
	return nil
}

// Put returns an object to the pool.
//
//go:norace
func (p *Pool) Put(x any) {
	if x == nil {
		return
	}
	simrt.Point(simrt.KPoolPut, p, nil)
	simrt.RaceReleaseMerge(unsafe.Pointer(&p.st))
	p.st.Put(x)
}

// Map is sync.Map (not instrumented: teleport does not use it directly).
type Map = sync.Map

// Cond is sync.Cond (not instrumented: teleport does not use it).
type Cond = sync.Cond

// NewCond is sync.NewCond.
//
//go:norace
func NewCond(l Locker) *Cond { return sync.NewCond(l) }

// The state words of the sim-aware primitives are real atomics (outsider goroutines use the primitives
// without the scheduler token), but the race detector must not see them: an atomic read-modify-write is an
// acquire and a release, so e.g. the counter of a WaitGroup would order every Add and Done of all its users,
// which the real WaitGroup (it disables the detector around its state word) does not.  The happens-before
// edges a primitive does publish are the explicit simrt.RaceAcquire/Release calls, outside these sections.

//go:norace
func ql32(p *atomic.Int32) int32 { simrt.QuietBegin(); v := p.Load(); simrt.QuietEnd(); return v }

//go:norace
func qs32(p *atomic.Int32, v int32) { simrt.QuietBegin(); p.Store(v); simrt.QuietEnd() }

//go:norace
func qa32(p *atomic.Int32, d int32) int32 {
	simrt.QuietBegin()
	v := p.Add(d)
	simrt.QuietEnd()
	return v
}

//go:norace
func ql64(p *atomic.Int64) int64 { simrt.QuietBegin(); v := p.Load(); simrt.QuietEnd(); return v }

//go:norace
func qa64(p *atomic.Int64, d int64) int64 {
	simrt.QuietBegin()
	v := p.Add(d)
	simrt.QuietEnd()
	return v
}

// OnceFunc, OnceValue and OnceValues mirror the sync helpers on top of the sim-aware Once.
func OnceFunc(f func()) func() {
	var o Once
	return func() { o.Do(f) }
}

func OnceValue[T any](f func() T) func() T {
	var o Once
	var v T
	return func() T { o.Do(func() { v = f() }); return v }
}

func OnceValues[T1, T2 any](f func() (T1, T2)) func() (T1, T2) {
	var o Once
	var a T1
	var b T2
	return func() (T1, T2) { o.Do(func() { a, b = f() }); return a, b }
}
