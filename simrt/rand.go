package simrt

// Rand is a small deterministic PRNG (splitmix64 seeding + xoshiro256**).
// Everything random in a simulated run is drawn from Rand values derived
// from the run seed, so a run is a pure function of (seed, code).
type Rand struct{ s [4]uint64 }

//go:norace
func splitmix(x *uint64) uint64 {
	*x += 0x9e3779b97f4a7c15
	z := *x
	z = (z ^ (z >> 30)) * 0xbf58476d1ce4e5b9
	z = (z ^ (z >> 27)) * 0x94d049bb133111eb
	return z ^ (z >> 31)
}

// Mix derives an independent stream seed from a seed and a label.
//
//go:norace
func Mix(seed uint64, label uint64) uint64 {
	x := seed ^ (label * 0xd6e8feb86659fd93)
	splitmix(&x)
	return splitmix(&x)
}

// NewRand returns a generator for seed.
//
//go:norace
func NewRand(seed uint64) *Rand {
	r := &Rand{}
	x := seed
	for i := range r.s {
		r.s[i] = splitmix(&x)
	}
	return r
}

//go:norace
func rotl(x uint64, k uint) uint64 { return (x << k) | (x >> (64 - k)) }

// Uint64 returns the next value.
//
//go:norace
func (r *Rand) Uint64() uint64 {
	s := &r.s
	res := rotl(s[1]*5, 7) * 9
	t := s[1] << 17
	s[2] ^= s[0]
	s[3] ^= s[1]
	s[1] ^= s[2]
	s[0] ^= s[3]
	s[2] ^= t
	s[3] = rotl(s[3], 45)
	return res
}

// Intn returns a value in [0,n). n<=0 yields 0.
//
//go:norace
func (r *Rand) Intn(n int) int {
	if n <= 1 {
		return 0
	}
	return int(r.Uint64() % uint64(n))
}

// Range returns a value in [lo,hi] inclusive.
//
//go:norace
func (r *Rand) Range(lo, hi int) int {
	if hi <= lo {
		return lo
	}
	return lo + r.Intn(hi-lo+1)
}

// Float64 returns a value in [0,1).
//
//go:norace
func (r *Rand) Float64() float64 { return float64(r.Uint64()>>11) / (1 << 53) }

// Chance returns true with probability p.
//
//go:norace
func (r *Rand) Chance(p float64) bool { return r.Float64() < p }

// Bytes fills b.
//
//go:norace
func (r *Rand) Bytes(b []byte) {
	for i := 0; i < len(b); {
		v := r.Uint64()
		for j := 0; j < 8 && i < len(b); j++ {
			b[i] = byte(v)
			v >>= 8
			i++
		}
	}
}

// Read implements io.Reader (never fails).
//
//go:norace
func (r *Rand) Read(b []byte) (int, error) { r.Bytes(b); return len(b), nil }

// Perm returns a permutation of [0,n).
//
//go:norace
func (r *Rand) Perm(n int) []int {
	p := make([]int, n)
	for i := range p {
		p[i] = i
	}
	for i := n - 1; i > 0; i-- {
		j := r.Intn(i + 1)
		p[i], p[j] = p[j], p[i]
	}
	return p
}
