//go:build !amd64

package simrt

import "runtime"

func goid() uint64 {
	var buf [40]byte
	n := runtime.Stack(buf[:], false)
	var id uint64
	for i := 10; i < n; i++ {
		c := buf[i]
		if c < '0' || c > '9' {
			break
		}
		id = id*10 + uint64(c-'0')
	}
	return id
}
