// Package simrt is the deterministic runtime used to simulate teleport.
//
// A run executes inside one testing/synctest bubble.  Every goroutine that
// executes teleport or harness code is a *task*.  At any instant at most one
// task holds the token; a task gives the token up at every *sim point*
// (lock, atomic, pool, map, network, spawn, sleep, explicit yield) and parks
// on its own channel until the scheduler - the bubble's root goroutine -
// picks it again.  The scheduler uses synctest.Wait to learn that the released
// task has parked, blocked natively (channel, timer) or exited; it then
// evaluates which parked tasks are enabled and lets a seeded policy pick one.
//
// With no active run every primitive falls through to the real one, so
// instrumented packages behave normally during package initialisation and
// outside simulation.
package simrt

import (
	"fmt"
	"os"
	"runtime"
	"sort"
	"strconv"
	"strings"
	"sync"
	"sync/atomic"
	"testing/synctest"
	"time"
)

// Kind labels a sim point.
type Kind uint8

// Sim point kinds.
const (
	KStart Kind = iota
	KLock
	KUnlock
	KRLock
	KRUnlock
	KAtomic
	KWgAdd
	KWgWait
	KOnce
	KPoolGet
	KPoolPut
	KMap
	KSleep
	KYield
	KNetRead
	KNetWrite
	KNetClose
	KNetAccept
	KNetDial
	KWaitChan
	KUser
	kindCount
)

var kindNames = [...]string{"start", "lock", "unlock", "rlock", "runlock", "atomic", "wgadd", "wgwait", "once",
	"poolget", "poolput", "map", "sleep", "yield", "netread", "netwrite", "netclose", "accept", "dial", "waitchan", "user"}

//go:norace
func (k Kind) String() string {
	if int(k) < len(kindNames) {
		return kindNames[k]
	}
	return "k" + strconv.Itoa(int(k))
}

// Pred reports whether a parked task may proceed at fake time now, and, if
// not, when the mere passing of time could enable it (zero: never).
type Pred func(now time.Time) (ok bool, wakeAt time.Time)

type taskState int32

const (
	stRunning taskState = iota // holds the token, or runs free after a native wake-up, or is blocked natively
	stParked
	stDone
)

// Task is one simulated goroutine.
type Task struct {
	ID     string // stable: parentID.childIndex
	Name   string // role label given by the spawner ("reader", "caller#2", ...)
	seq    int    // creation order (deterministic: creations happen under the token)
	goid   uint64
	wake   chan struct{}
	state  atomic.Int32
	kind   Kind
	obj    any
	pred   Pred
	nchild int
	prio   int // PCT priority
	// bookkeeping for reports
	steps      int
	idle       bool // parked in WaitQuiescent
	exitPoints int
	where      string
	exiting    bool
	Panic      any
	PanicStk   string
	daemon     bool
}

//go:norace
func (t *Task) String() string {
	if t.Name != "" {
		return t.ID + "(" + t.Name + ")"
	}
	return t.ID
}

// Policy names.
const (
	PolRandom = "random"
	PolSticky = "sticky"
	PolPCT    = "pct"
	PolRR     = "rr"
	PolStarve = "starve"
	PolReplay = "replay"
)

// Config of one run.
type Config struct {
	Seed     uint64
	Policy   string
	StickyP  float64 // for PolSticky
	PCTDepth int     // number of priority change points
	PCTSteps int     // horizon over which change points are spread
	StarveK  int
	MaxSteps int           // hard cap on scheduling steps (0: 200000)
	Horizon  time.Duration // fake time after which an idle system is called quiescent (0: 10m)
	MaxTime  time.Duration // cap of fake time for the whole run (0: 6h)
	Replay   []int32       // with PolReplay or as prefix: forced choices
	// ReplayThenDefault: after the Replay prefix is exhausted always pick index 0.
	ReplayThenDefault bool
	PoolMissP         float64 // buggify: probability that Pool.Get ignores a pooled object
	PoolMode          int     // 0 LIFO, 1 FIFO, 2 random
	TraceEvents       bool    // keep a textual event log (determinism diff, samples)
}

// Event kinds reported in Stats.
type Stats struct {
	Steps        int
	Switches     int
	Tasks        int
	TimeAdvances int
	SimTime      time.Duration
	PointsByKind [kindCount]int
	MultiEnabled int // steps at which >= 2 tasks were enabled
	MaxEnabled   int
	Capped       bool
	Adopted      int
}

type timedEvent struct {
	at  time.Time
	seq int
	fn  func()
}

// Sched runs one simulation.
type Sched struct {
	cfg    Config
	mu     sync.Mutex // real mutex: protects tasks/byGoid against free-running tasks
	tasks  []*Task
	byGoid goidTab
	cur    *Task
	last   *Task
	rng    *Rand // schedule choices
	Aux    *Rand // pool/map/iteration choices
	start  time.Time
	events []timedEvent
	evseq  int
	// trace of choices: index into the enabled list (current task first)
	Choices []int32
	replayI int
	Stats   Stats
	sig     uint64 // rolling signature of the schedule
	Log     []string
	abort   atomic.Bool
	hintMax time.Duration
	// pct
	pctPoints map[int]bool
	starveT   *Task
	starveN   int
	rootID    int
	schedGoid uint64
	// StopAfterMain ends the run as soon as the first task has returned, even if other tasks could still
	// run (for systems under test that own immortal tickers).
	StopAfterMain bool
	mainTask      *Task
	// hooks
	OnStep func(s *Sched) // called by the scheduler after every step (invariants); must not hit sim points
	// failure notes recorded by tasks/invariants
	fmu      sync.Mutex
	Failures []string
	stuck    []string
	pools    []*poolState
	swSig    map[uint64]struct{}
}

var active atomic.Pointer[Sched]

// Active returns the running scheduler or nil.
//
//go:norace
func Active() *Sched { return active.Load() }

// Now returns the fake time since the run started.
//
//go:norace
func (s *Sched) Now() time.Duration { return time.Since(s.start) }

// Fail records a violation note (class string first).
//
//go:norace
func (s *Sched) Fail(class string, format string, a ...any) {
	qlock(&s.fmu)
	s.Failures = append(s.Failures, class+": "+fmt.Sprintf(format, a...))
	qunlock(&s.fmu)
}

// Fail records a violation on the active run.
//
//go:norace
func Fail(class string, format string, a ...any) {
	if s := Active(); s != nil {
		s.Fail(class, format, a...)
	}
}

// Failed reports whether any failure was recorded.
//
//go:norace
func (s *Sched) Failed() bool {
	qlock(&s.fmu)
	defer qunlock(&s.fmu)
	return len(s.Failures) > 0
}

//go:norace
func (s *Sched) logf(format string, a ...any) {
	if s.cfg.TraceEvents {
		s.Log = append(s.Log, fmt.Sprintf("%d ", s.Stats.Steps)+fmt.Sprintf(format, a...))
	}
}

// Logf appends to the event log of the active run (no-op unless tracing).
//
//go:norace
func Logf(format string, a ...any) {
	if s := Active(); s != nil && s.cfg.TraceEvents {
		qlock(&s.mu)
		s.logf(format, a...)
		qunlock(&s.mu)
	}
}

//go:norace
func (s *Sched) mixSig(v uint64) {
	s.sig = (s.sig ^ v) * 0x100000001b3
	s.sig ^= s.sig >> 29
}

// MixSig folds harness-level observations into the determinism signature.
//
//go:norace
func MixSig(v uint64) {
	if s := Active(); s != nil {
		qlock(&s.mu)
		s.mixSig(v)
		qunlock(&s.mu)
	}
}

// Signature is a hash of the executed schedule.
//
//go:norace
func (s *Sched) Signature() uint64 { return s.sig }

// SwitchSignatures returns the set of context-switch signatures seen.
//
//go:norace
func (s *Sched) SwitchSignature() uint64 {
	var h uint64 = 1469598103934665603
	keys := make([]uint64, 0, len(s.swSig))
	for k := range s.swSig {
		keys = append(keys, k)
	}
	sort.Slice(keys, func(i, j int) bool { return keys[i] < keys[j] })
	for _, k := range keys {
		h = (h ^ k) * 0x100000001b3
	}
	return h
}

//go:norace
func (s *Sched) newTask(parent *Task, name string) *Task {
	t := &Task{Name: name, wake: make(chan struct{}, 1)}
	qlock(&s.mu)
	if parent == nil {
		t.ID = strconv.Itoa(s.rootID)
		s.rootID++
	} else {
		t.ID = parent.ID + "." + strconv.Itoa(parent.nchild)
		parent.nchild++
	}
	t.seq = len(s.tasks)
	t.prio = int(s.Aux.Uint64() >> 1)
	s.tasks = append(s.tasks, t)
	s.Stats.Tasks++
	qunlock(&s.mu)
	return t
}

//go:norace
func (s *Sched) lookup() *Task {
	g := goid()
	if g == s.schedGoid {
		panic("simrt: sim point reached from scheduler context (a predicate, timed event or OnStep hook called instrumented code)")
	}
	qlock(&s.mu)
	t := s.byGoid.get(g)
	if t == nil {
		// A goroutine the scheduler did not spawn (e.g. a process-level helper started at package
		// initialisation, outside any bubble).  It is not part of the simulation: its operations
		// fall through to the real primitives.  Counted, so a run can be flagged if it happens.
		s.Stats.Adopted++
	}
	qunlock(&s.mu)
	return t
}

// Current returns the calling task (nil outside a run).
//
//go:norace
func Current() *Task {
	s := Active()
	if s == nil {
		return nil
	}
	return s.lookup()
}

var alwaysPred Pred = nil

// Point is a sim point: the caller parks until the scheduler picks it and pred
// (nil = always) holds.  Outside a run it returns false at once and the caller
// must use the real primitive.
//
//go:norace
func Point(kind Kind, obj any, pred Pred) bool { return PointT(kind, obj, pred) != nil }

// OnTeardown, if set, is called by the scheduler when the scenario of a run has ended (main returned, step
// budget exhausted or a failure) and before the remaining tasks are unwound.  While unwinding, sim points
// no longer block (see PointT), so mutual exclusion is not kept: observers that judge orderings stop here.
var OnTeardown func()

// PointT is Point returning the calling task (nil outside a run).
//
//go:norace
func PointT(kind Kind, obj any, pred Pred) *Task {
	s := active.Load()
	if s == nil {
		return nil
	}
	t := s.lookup()
	if t == nil {
		return nil
	}
	if t.exiting {
		// the task is unwinding (Goexit) and its deferred functions reach sim points: let them run, but a
		// deferred function that loops (e.g. an unlimited redial loop) must not spin for ever
		t.exitPoints++
		if t.exitPoints > 5000 {
			t.exitPoints = 0
			runtime.Goexit()
		}
		return t
	}
	if s.abort.Load() {
		t.exiting = true
		runtime.Goexit()
	}
	t.kind, t.obj, t.pred = kind, obj, pred
	if s.cfg.TraceEvents {
		t.where = callSite()
	}
	raceDisable()
	t.state.Store(int32(stParked))
	<-t.wake
	raceEnable()
	if s.abort.Load() {
		t.exiting = true
		runtime.Goexit()
	}
	return t
}

// Yield is an explicit sim point.
//
//go:norace
func Yield() { Point(KYield, nil, nil) }

// YieldN yields n times.
//
//go:norace
func YieldN(n int) {
	for i := 0; i < n; i++ {
		Yield()
	}
}

// Sleep is a sim-aware time.Sleep.
//
//go:norace
func Sleep(d time.Duration) {
	s := active.Load()
	if s == nil {
		time.Sleep(d)
		return
	}
	if d <= 0 {
		Yield()
		return
	}
	at := time.Now().Add(d)
	Point(KSleep, nil, func(now time.Time) (bool, time.Time) {
		if !now.Before(at) {
			return true, time.Time{}
		}
		return false, at
	})
}

// WaitClosed parks until ch is closed (or has a value; the value is not consumed
// for a closed channel - use only with close-style channels).
//
//go:norace
func WaitClosed(ch <-chan struct{}) {
	s := active.Load()
	if s == nil {
		<-ch
		return
	}
	Point(KWaitChan, nil, func(time.Time) (bool, time.Time) {
		select {
		case <-ch:
			return true, time.Time{}
		default:
			return false, time.Time{}
		}
	})
	hAcquire()
}

// WaitClosedUntil parks until ch is closed or d of fake time passed; reports whether it was closed.
//
//go:norace
func WaitClosedUntil(ch <-chan struct{}, d time.Duration) bool {
	s := active.Load()
	if s == nil {
		select {
		case <-ch:
			return true
		case <-time.After(d):
			return false
		}
	}
	at := time.Now().Add(d)
	Point(KWaitChan, nil, func(now time.Time) (bool, time.Time) {
		select {
		case <-ch:
			return true, time.Time{}
		default:
		}
		if !now.Before(at) {
			return true, time.Time{}
		}
		return false, at
	})
	select {
	case <-ch:
		return true
	default:
		return false
	}
}

// WaitCond parks until cond() holds; cond is evaluated by the scheduler while
// every task is stopped, so it may read shared harness state without locks but
// must not hit sim points.
//
//go:norace
func WaitCond(cond func() bool) {
	if active.Load() == nil {
		for !cond() {
			runtime.Gosched()
		}
		return
	}
	Point(KUser, nil, func(time.Time) (bool, time.Time) { return cond(), time.Time{} })
	hAcquire()
}

// WaitQuiescent parks the caller until nothing else can run: every other task is
// done, parked on a condition that does not hold, or blocked natively, and no
// time-based wake-up is pending (or the idle horizon passed).  It is the
// "faults have stopped and the system has settled" point of a scenario.
//
//go:norace
func WaitQuiescent() {
	s := active.Load()
	if s == nil {
		return
	}
	t := s.lookup()
	if t == nil {
		return
	}
	t.idle = true
	Point(KUser, nil, func(time.Time) (bool, time.Time) { return false, time.Time{} })
	hAcquire()
	t.idle = false
}

// Snapshot lists the tasks that are parked (with what they wait for) or blocked
// natively.  Meant to be called right after WaitQuiescent.
//
//go:norace
func (s *Sched) Snapshot() (parked, native []string) {
	me := s.lookup()
	qlock(&s.mu)
	defer qunlock(&s.mu)
	for _, t := range s.tasks {
		if t == me || t.daemon {
			continue
		}
		switch taskState(t.state.Load()) {
		case stParked:
			parked = append(parked, fmt.Sprintf("%s@%s%s", t.Name, t.kind, objLabel(t.obj)))
		case stRunning:
			native = append(native, t.Name)
		}
	}
	return
}

// SystemTaskName is the role label of tasks the system under test spawns through its goroutine-pool hook;
// like unnamed tasks (instrumented go statements) they are not harness tasks.
const SystemTaskName = "erpc-go"

// Go starts fn as a new task (plain goroutine outside a run).
//
//go:norace
func Go(fn func()) { GoNamed("", fn) }

// GoNamed starts fn as a new task with a role label.
//
//go:norace
func GoNamed(name string, fn func()) {
	s := active.Load()
	if s == nil {
		go fn()
		return
	}
	parent := s.lookup()
	if parent == nil {
		go fn()
		return
	}
	if parent.exiting || s.abort.Load() {
		return
	}
	t := s.newTask(parent, name)
	s.spawn(t, fn)
	// the spawn itself is a sim point of the parent
	Point(KStart, nil, nil)
}

//go:norace
func (s *Sched) spawn(t *Task, fn func()) {
	t.kind = KStart
	t.state.Store(int32(stParked))
	go func() {
		t.goid = goid()
		qlock(&s.mu)
		s.byGoid.put(t.goid, t)
		qunlock(&s.mu)
		defer s.taskExit(t)
		<-t.wake
		if s.abort.Load() {
			t.exiting = true
			return
		}
		if t.Name != "" && t.Name != SystemTaskName {
			// a named task is a harness task: what it did is visible to a harness task that waits for its
			// end (WaitCond, WaitQuiescent), as with a WaitGroup in a real program.  Tasks started by the
			// system under test (instrumented go statements, unnamed) publish nothing.
			defer hRelease()
		}
		fn()
	}()
}

//go:norace
func (s *Sched) taskExit(t *Task) {
	if p := recover(); p != nil {
		t.Panic = p
		buf := make([]byte, 16<<10)
		t.PanicStk = string(buf[:runtime.Stack(buf, false)])
		if !s.abort.Load() {
			s.Fail("panic-escaped-task", "task %s panicked: %v", t, p)
			if os.Getenv("VERIF_DEBUG") != "" {
				fmt.Fprintf(os.Stderr, "--- panic in task %s: %v\n%s\n", t, p, t.PanicStk)
			}
		}
	}
	t.state.Store(int32(stDone))
	qlock(&s.mu)
	s.byGoid.del(t.goid)
	qunlock(&s.mu)
}

// After schedules fn to be run by the scheduler goroutine once d of fake time
// has passed.  fn must not hit sim points (it runs while all tasks are stopped).
//
//go:norace
func (s *Sched) After(d time.Duration, fn func()) {
	qlock(&s.mu)
	s.events = append(s.events, timedEvent{at: time.Now().Add(d), seq: s.evseq, fn: fn})
	s.evseq++
	qunlock(&s.mu)
}

// HintMaxSleep bounds how far the scheduler lets the clock jump at once; used when the
// system under test owns timers the scheduler cannot see (tickers, context deadlines).
//
//go:norace
func (s *Sched) HintMaxSleep(d time.Duration) {
	if s.hintMax == 0 || d < s.hintMax {
		s.hintMax = d
	}
}

// Result of a run.
type Result struct {
	Quiescent bool     // ended with nothing enabled and nothing pending in time
	Stuck     []string // tasks parked forever at the end: "task kind"
	Native    []string // tasks blocked natively at the end
	Failures  []string
	Stats     Stats
	Sig       uint64
	Choices   []int32
	Log       []string
	Clean     bool // every task exited; the process may be reused
}

// Run executes main as the first task inside the current synctest bubble and
// schedules until main and all non-daemon tasks are done or nothing can run.
// It must be called from the bubble's root goroutine.
//
//go:norace
func Run(cfg Config, main func()) *Result {
	if cfg.MaxSteps == 0 {
		cfg.MaxSteps = 200000
	}
	if cfg.Horizon == 0 {
		cfg.Horizon = 10 * time.Minute
	}
	if cfg.MaxTime == 0 {
		cfg.MaxTime = 6 * time.Hour
	}
	s := &Sched{cfg: cfg, swSig: map[uint64]struct{}{}}
	s.rng = NewRand(Mix(cfg.Seed, 1))
	s.Aux = NewRand(Mix(cfg.Seed, 2))
	s.start = time.Now()
	s.schedGoid = goid()
	if cfg.Policy == PolPCT {
		s.pctPoints = map[int]bool{}
		h := cfg.PCTSteps
		if h <= 0 {
			h = 2000
		}
		for i := 0; i < cfg.PCTDepth; i++ {
			s.pctPoints[s.rng.Intn(h)] = true
		}
	}
	resetPools()
	if !active.CompareAndSwap(nil, s) {
		panic("simrt: nested Run")
	}
	mt := s.newTask(nil, "main")
	s.mainTask = mt
	s.spawn(mt, main)
	res := &Result{}
	raceDisable()
	s.loop(res)
	// tear down: release parked tasks one at a time; each unwinds with Goexit
	if OnTeardown != nil {
		OnTeardown()
	}
	s.abort.Store(true)
	for round := 0; round < 50; round++ {
		woke := false
		qlock(&s.mu)
		ts := append([]*Task(nil), s.tasks...)
		qunlock(&s.mu)
		for _, t := range ts {
			if taskState(t.state.Load()) == stParked {
				t.state.Store(int32(stRunning))
				select {
				case t.wake <- struct{}{}:
				default:
				}
				woke = true
				synctest.Wait()
			}
		}
		if !woke {
			break
		}
	}
	raceEnable()
	clean := true
	qlock(&s.mu)
	for _, t := range s.tasks {
		if taskState(t.state.Load()) != stDone {
			clean = false
		}
	}
	qunlock(&s.mu)
	res.Clean = clean
	active.Store(nil)
	resetPools()
	qlock(&s.fmu)
	res.Failures = append(res.Failures, s.Failures...)
	qunlock(&s.fmu)
	s.Stats.SimTime = time.Since(s.start)
	res.Stats = s.Stats
	res.Sig = s.sig
	res.Choices = s.Choices
	res.Log = s.Log
	return res
}

// Sched returns the scheduler of the active run (for harness use).
//
//go:norace
func (s *Sched) Cfg() Config { return s.cfg }

//go:norace
func (s *Sched) runDueEvents(now time.Time) bool {
	ran := false
	for {
		qlock(&s.mu)
		best := -1
		for i, e := range s.events {
			if !e.at.After(now) {
				if best < 0 || e.at.Before(s.events[best].at) || (e.at.Equal(s.events[best].at) && e.seq < s.events[best].seq) {
					best = i
				}
			}
		}
		if best < 0 {
			qunlock(&s.mu)
			return ran
		}
		e := s.events[best]
		s.events = append(s.events[:best], s.events[best+1:]...)
		qunlock(&s.mu)
		e.fn()
		ran = true
	}
}

//go:norace
func (s *Sched) releaseIdle(ts []*Task) bool {
	var idle []*Task
	for _, t := range ts {
		if taskState(t.state.Load()) == stParked && t.idle {
			idle = append(idle, t)
		}
	}
	if len(idle) == 0 {
		return false
	}
	x := idle[0]
	s.Stats.Steps++
	s.mixSig(uint64(x.seq)<<8 | 0xff)
	if s.cfg.TraceEvents {
		s.logf("idle-release %s", x)
	}
	s.cur = x
	x.state.Store(int32(stRunning))
	x.wake <- struct{}{}
	return true
}

//go:norace
func (s *Sched) loop(res *Result) {
	idleSince := time.Time{}
	quantum := time.Millisecond
	for {
		synctest.Wait()
		if s.cur != nil {
			s.last = s.cur
			s.cur = nil
		}
		if s.OnStep != nil {
			s.OnStep(s)
		}
		if s.StopAfterMain && s.mainTask != nil && taskState(s.mainTask.state.Load()) == stDone {
			res.Quiescent = false
			return
		}
		now := time.Now()
		if s.runDueEvents(now) {
			// events may have started goroutines or changed predicates
			synctest.Wait()
		}
		// collect
		qlock(&s.mu)
		ts := append([]*Task(nil), s.tasks...)
		evs := append([]timedEvent(nil), s.events...)
		qunlock(&s.mu)
		var enabled []*Task
		var wakeAt time.Time
		live := 0
		nativeOrFree := 0
		for _, t := range ts {
			switch taskState(t.state.Load()) {
			case stDone:
				continue
			case stRunning:
				// blocked natively (channel / timer)
				live++
				nativeOrFree++
				continue
			}
			live++
			if t.pred == nil {
				enabled = append(enabled, t)
				continue
			}
			ok, at := t.pred(now)
			if ok {
				enabled = append(enabled, t)
			} else if !at.IsZero() && (wakeAt.IsZero() || at.Before(wakeAt)) {
				wakeAt = at
			}
		}
		for _, e := range evs {
			if wakeAt.IsZero() || e.at.Before(wakeAt) {
				wakeAt = e.at
			}
		}

		if len(enabled) == 0 {
			if live == 0 {
				res.Quiescent = true
				return
			}
			// nothing can run now: let fake time pass
			if idleSince.IsZero() {
				idleSince = now
			}
			var d time.Duration
			if !wakeAt.IsZero() {
				d = wakeAt.Sub(now)
				if d <= 0 {
					d = time.Nanosecond
				}
				if nativeOrFree > 0 && s.hintMax > 0 && d > s.hintMax {
					d = s.hintMax
				}
				idleSince = time.Time{}
				quantum = time.Millisecond
			} else if nativeOrFree > 0 {
				// only natively blocked tasks (timers we cannot see, or channels nobody will signal)
				if now.Sub(idleSince) >= s.cfg.Horizon {
					idleSince = time.Time{}
					if s.releaseIdle(ts) {
						continue
					}
					s.finishStuck(res, ts)
					return
				}
				d = quantum
				if s.hintMax > 0 && d > s.hintMax {
					d = s.hintMax
				} else {
					quantum *= 2
				}
			} else {
				// every live task is parked and disabled, and no time-based wake-up exists
				idleSince = time.Time{}
				if s.releaseIdle(ts) {
					continue
				}
				s.finishStuck(res, ts)
				return
			}
			if time.Since(s.start) > s.cfg.MaxTime {
				s.Stats.Capped = true
				s.finishStuck(res, ts)
				return
			}
			s.Stats.TimeAdvances++
			time.Sleep(d)
			continue
		}
		idleSince = time.Time{}
		quantum = time.Millisecond
		if s.Stats.Steps >= s.cfg.MaxSteps {
			s.Stats.Capped = true
			return
		}
		// order: last task first (choice 0 = continue), then by creation order
		sort.Slice(enabled, func(i, j int) bool {
			if (enabled[i] == s.last) != (enabled[j] == s.last) {
				return enabled[i] == s.last
			}
			return enabled[i].seq < enabled[j].seq
		})
		if len(enabled) >= 2 {
			s.Stats.MultiEnabled++
		}
		if len(enabled) > s.Stats.MaxEnabled {
			s.Stats.MaxEnabled = len(enabled)
		}
		idx := s.pick(enabled)
		s.Choices = append(s.Choices, int32(idx))
		x := enabled[idx]
		s.Stats.Steps++
		s.Stats.PointsByKind[x.kind]++
		x.steps++
		if x != s.last {
			s.Stats.Switches++
			if s.last != nil {
				k := uint64(x.kind)<<32 ^ uint64(s.last.kind)<<40 ^ hashStr(x.Name)<<1 ^ hashStr(s.last.Name)
				s.swSig[k] = struct{}{}
			}
		}
		s.mixSig(uint64(x.seq)<<8 | uint64(x.kind))
		if s.cfg.TraceEvents {
			s.logf("run %s %s %s", x, x.kind, x.where)
		}
		s.cur = x
		x.state.Store(int32(stRunning))
		x.wake <- struct{}{}
	}
}

//go:norace
func hashStr(s string) uint64 {
	var h uint64 = 1469598103934665603
	for i := 0; i < len(s); i++ {
		h = (h ^ uint64(s[i])) * 0x100000001b3
	}
	return h
}

//go:norace
func (s *Sched) finishStuck(res *Result, ts []*Task) {
	for _, t := range ts {
		switch taskState(t.state.Load()) {
		case stParked:
			if !t.daemon {
				res.Stuck = append(res.Stuck, fmt.Sprintf("%s@%s%s", t, t.kind, objLabel(t.obj)))
			}
		case stRunning:
			if !t.daemon {
				res.Native = append(res.Native, t.String())
			}
		}
	}
	res.Quiescent = true
}

// Labeler lets sim objects describe themselves in stuck-task reports.
type Labeler interface{ SimLabel() string }

//go:norace
func objLabel(o any) string {
	if l, ok := o.(Labeler); ok {
		return ":" + l.SimLabel()
	}
	return ""
}

// SetDaemon marks the calling task as one that may legitimately never finish
// (accept loops, tickers); it is not reported as stuck.
//
//go:norace
func SetDaemon() {
	if t := Current(); t != nil {
		t.daemon = true
	}
}

//go:norace
func (s *Sched) pick(enabled []*Task) int {
	n := len(enabled)
	// forced prefix
	if s.replayI < len(s.cfg.Replay) {
		c := int(s.cfg.Replay[s.replayI])
		s.replayI++
		if c < 0 || c >= n {
			c = 0
		}
		return c
	}
	if s.cfg.ReplayThenDefault || s.cfg.Policy == PolReplay {
		return 0
	}
	if n == 1 {
		return 0
	}
	hasLast := enabled[0] == s.last
	switch s.cfg.Policy {
	case PolSticky:
		if hasLast && s.rng.Chance(s.cfg.StickyP) {
			return 0
		}
		return s.rng.Intn(n)
	case PolRR:
		// next in creation order after last
		if s.last == nil {
			return 0
		}
		best, bestSeq := -1, 1<<30
		minI, minSeq := 0, 1<<30
		for i, t := range enabled {
			if t.seq > s.last.seq && t.seq < bestSeq {
				best, bestSeq = i, t.seq
			}
			if t.seq < minSeq {
				minI, minSeq = i, t.seq
			}
		}
		if best >= 0 {
			return best
		}
		return minI
	case PolPCT:
		if s.pctPoints[s.Stats.Steps] && hasLast {
			enabled[0].prio = -s.Stats.Steps // demote below everybody
		}
		best := 0
		for i, t := range enabled {
			if t.prio > enabled[best].prio {
				best = i
			}
		}
		return best
	case PolStarve:
		if s.starveN <= 0 {
			if s.rng.Chance(0.02) {
				s.starveT = enabled[s.rng.Intn(n)]
				s.starveN = s.cfg.StarveK
			}
		} else {
			s.starveN--
		}
		c := s.rng.Intn(n)
		if s.starveN > 0 && enabled[c] == s.starveT {
			c = (c + 1) % n
		}
		return c
	default:
		return s.rng.Intn(n)
	}
}

// callSite names the first frame outside simrt (trace mode only).
//
//go:norace
func callSite() string {
	var pcs [12]uintptr
	n := runtime.Callers(3, pcs[:])
	fr := runtime.CallersFrames(pcs[:n])
	for {
		f, more := fr.Next()
		if f.Function != "" && !strings.HasPrefix(f.Function, "simrt") {
			fn := f.Function
			if i := strings.LastIndex(fn, "/"); i >= 0 {
				fn = fn[i+1:]
			}
			return fmt.Sprintf("%s:%d", fn, f.Line)
		}
		if !more {
			return ""
		}
	}
}
