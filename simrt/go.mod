module simrt

go 1.26
