package simrt

import (
	"runtime"
	"unsafe"
)

func getg() uintptr

// goidOff is the offset of the goid field inside runtime.g, found by calibration at start-up
// (-1: unknown, use the slow path).  runtime.Stack costs ~10us per call because it formats a
// traceback; reading the field costs a few nanoseconds.
var goidOff = calibrateGoid()

func slowGoid() uint64 {
	var buf [40]byte
	n := runtime.Stack(buf[:], false)
	var id uint64
	for i := 10; i < n; i++ {
		c := buf[i]
		if c < '0' || c > '9' {
			break
		}
		id = id*10 + uint64(c-'0')
	}
	return id
}

//go:nocheckptr
func candidates() map[uintptr]bool {
	id := slowGoid()
	g := getg()
	m := map[uintptr]bool{}
	for off := uintptr(0); off < 512; off += 8 {
		if *(*uint64)(unsafe.Pointer(g + off)) == id {
			m[off] = true
		}
	}
	return m
}

func calibrateGoid() int {
	sets := make(chan map[uintptr]bool, 4)
	for i := 0; i < 4; i++ {
		go func() { sets <- candidates() }()
	}
	inter := candidates()
	for i := 0; i < 4; i++ {
		s := <-sets
		for k := range inter {
			if !s[k] {
				delete(inter, k)
			}
		}
	}
	if len(inter) != 1 {
		return -1
	}
	for k := range inter {
		return int(k)
	}
	return -1
}

//go:nocheckptr
func goid() uint64 {
	if goidOff < 0 {
		return slowGoid()
	}
	return *(*uint64)(unsafe.Pointer(getg() + uintptr(goidOff)))
}
