// Package simatomic replaces sync/atomic for instrumented code: every operation
// is a sim point followed by the real atomic operation.
package simatomic

import (
	"sync/atomic"
	"unsafe"

	"simrt"
)

func pt(p unsafe.Pointer) { simrt.Point(simrt.KAtomic, nil, nil) }

func AddInt32(addr *int32, delta int32) int32 {
	pt(unsafe.Pointer(addr))
	return atomic.AddInt32(addr, delta)
}
func AddInt64(addr *int64, delta int64) int64 {
	pt(unsafe.Pointer(addr))
	return atomic.AddInt64(addr, delta)
}
func AddUint32(addr *uint32, delta uint32) uint32 {
	pt(unsafe.Pointer(addr))
	return atomic.AddUint32(addr, delta)
}
func AddUint64(addr *uint64, delta uint64) uint64 {
	pt(unsafe.Pointer(addr))
	return atomic.AddUint64(addr, delta)
}
func AddUintptr(addr *uintptr, delta uintptr) uintptr {
	pt(unsafe.Pointer(addr))
	return atomic.AddUintptr(addr, delta)
}
func LoadInt32(addr *int32) int32       { pt(unsafe.Pointer(addr)); return atomic.LoadInt32(addr) }
func LoadInt64(addr *int64) int64       { pt(unsafe.Pointer(addr)); return atomic.LoadInt64(addr) }
func LoadUint32(addr *uint32) uint32    { pt(unsafe.Pointer(addr)); return atomic.LoadUint32(addr) }
func LoadUint64(addr *uint64) uint64    { pt(unsafe.Pointer(addr)); return atomic.LoadUint64(addr) }
func LoadUintptr(addr *uintptr) uintptr { pt(unsafe.Pointer(addr)); return atomic.LoadUintptr(addr) }
func LoadPointer(addr *unsafe.Pointer) unsafe.Pointer {
	pt(unsafe.Pointer(addr))
	return atomic.LoadPointer(addr)
}
func StoreInt32(addr *int32, v int32)       { pt(unsafe.Pointer(addr)); atomic.StoreInt32(addr, v) }
func StoreInt64(addr *int64, v int64)       { pt(unsafe.Pointer(addr)); atomic.StoreInt64(addr, v) }
func StoreUint32(addr *uint32, v uint32)    { pt(unsafe.Pointer(addr)); atomic.StoreUint32(addr, v) }
func StoreUint64(addr *uint64, v uint64)    { pt(unsafe.Pointer(addr)); atomic.StoreUint64(addr, v) }
func StoreUintptr(addr *uintptr, v uintptr) { pt(unsafe.Pointer(addr)); atomic.StoreUintptr(addr, v) }
func StorePointer(addr *unsafe.Pointer, v unsafe.Pointer) {
	pt(unsafe.Pointer(addr))
	atomic.StorePointer(addr, v)
}
func SwapInt32(addr *int32, v int32) int32 {
	pt(unsafe.Pointer(addr))
	return atomic.SwapInt32(addr, v)
}
func SwapInt64(addr *int64, v int64) int64 {
	pt(unsafe.Pointer(addr))
	return atomic.SwapInt64(addr, v)
}
func SwapUint32(addr *uint32, v uint32) uint32 {
	pt(unsafe.Pointer(addr))
	return atomic.SwapUint32(addr, v)
}
func SwapUint64(addr *uint64, v uint64) uint64 {
	pt(unsafe.Pointer(addr))
	return atomic.SwapUint64(addr, v)
}
func SwapPointer(addr *unsafe.Pointer, v unsafe.Pointer) unsafe.Pointer {
	pt(unsafe.Pointer(addr))
	return atomic.SwapPointer(addr, v)
}
func CompareAndSwapInt32(addr *int32, old, new int32) bool {
	pt(unsafe.Pointer(addr))
	return atomic.CompareAndSwapInt32(addr, old, new)
}
func CompareAndSwapInt64(addr *int64, old, new int64) bool {
	pt(unsafe.Pointer(addr))
	return atomic.CompareAndSwapInt64(addr, old, new)
}
func CompareAndSwapUint32(addr *uint32, old, new uint32) bool {
	pt(unsafe.Pointer(addr))
	return atomic.CompareAndSwapUint32(addr, old, new)
}
func CompareAndSwapUint64(addr *uint64, old, new uint64) bool {
	pt(unsafe.Pointer(addr))
	return atomic.CompareAndSwapUint64(addr, old, new)
}
func CompareAndSwapUintptr(addr *uintptr, old, new uintptr) bool {
	pt(unsafe.Pointer(addr))
	return atomic.CompareAndSwapUintptr(addr, old, new)
}
func CompareAndSwapPointer(addr *unsafe.Pointer, old, new unsafe.Pointer) bool {
	pt(unsafe.Pointer(addr))
	return atomic.CompareAndSwapPointer(addr, old, new)
}

// Value is atomic.Value with sim points.
type Value struct{ v atomic.Value }

func (v *Value) Load() any   { pt(nil); return v.v.Load() }
func (v *Value) Store(x any) { pt(nil); v.v.Store(x) }
func (v *Value) Swap(x any) any {
	pt(nil)
	return v.v.Swap(x)
}
func (v *Value) CompareAndSwap(old, new any) bool { pt(nil); return v.v.CompareAndSwap(old, new) }

// Typed values (Go 1.19 API) with sim points, for code that may start using them.
type Int32 struct{ v atomic.Int32 }

func (x *Int32) Load() int32                    { pt(nil); return x.v.Load() }
func (x *Int32) Store(v int32)                  { pt(nil); x.v.Store(v) }
func (x *Int32) Add(d int32) int32              { pt(nil); return x.v.Add(d) }
func (x *Int32) Swap(v int32) int32             { pt(nil); return x.v.Swap(v) }
func (x *Int32) CompareAndSwap(o, n int32) bool { pt(nil); return x.v.CompareAndSwap(o, n) }

type Int64 struct{ v atomic.Int64 }

func (x *Int64) Load() int64                    { pt(nil); return x.v.Load() }
func (x *Int64) Store(v int64)                  { pt(nil); x.v.Store(v) }
func (x *Int64) Add(d int64) int64              { pt(nil); return x.v.Add(d) }
func (x *Int64) Swap(v int64) int64             { pt(nil); return x.v.Swap(v) }
func (x *Int64) CompareAndSwap(o, n int64) bool { pt(nil); return x.v.CompareAndSwap(o, n) }

type Uint32 struct{ v atomic.Uint32 }

func (x *Uint32) Load() uint32                    { pt(nil); return x.v.Load() }
func (x *Uint32) Store(v uint32)                  { pt(nil); x.v.Store(v) }
func (x *Uint32) Add(d uint32) uint32             { pt(nil); return x.v.Add(d) }
func (x *Uint32) Swap(v uint32) uint32            { pt(nil); return x.v.Swap(v) }
func (x *Uint32) CompareAndSwap(o, n uint32) bool { pt(nil); return x.v.CompareAndSwap(o, n) }

type Uint64 struct{ v atomic.Uint64 }

func (x *Uint64) Load() uint64                    { pt(nil); return x.v.Load() }
func (x *Uint64) Store(v uint64)                  { pt(nil); x.v.Store(v) }
func (x *Uint64) Add(d uint64) uint64             { pt(nil); return x.v.Add(d) }
func (x *Uint64) Swap(v uint64) uint64            { pt(nil); return x.v.Swap(v) }
func (x *Uint64) CompareAndSwap(o, n uint64) bool { pt(nil); return x.v.CompareAndSwap(o, n) }

type Bool struct{ v atomic.Bool }

func (x *Bool) Load() bool                    { pt(nil); return x.v.Load() }
func (x *Bool) Store(v bool)                  { pt(nil); x.v.Store(v) }
func (x *Bool) Swap(v bool) bool              { pt(nil); return x.v.Swap(v) }
func (x *Bool) CompareAndSwap(o, n bool) bool { pt(nil); return x.v.CompareAndSwap(o, n) }

type Uintptr struct{ v atomic.Uintptr }

func (x *Uintptr) Load() uintptr                    { pt(nil); return x.v.Load() }
func (x *Uintptr) Store(v uintptr)                  { pt(nil); x.v.Store(v) }
func (x *Uintptr) Add(d uintptr) uintptr            { pt(nil); return x.v.Add(d) }
func (x *Uintptr) Swap(v uintptr) uintptr           { pt(nil); return x.v.Swap(v) }
func (x *Uintptr) CompareAndSwap(o, n uintptr) bool { pt(nil); return x.v.CompareAndSwap(o, n) }

// Pointer replaces atomic.Pointer[T].
type Pointer[T any] struct{ v atomic.Pointer[T] }

func (x *Pointer[T]) Load() *T                    { pt(nil); return x.v.Load() }
func (x *Pointer[T]) Store(v *T)                  { pt(nil); x.v.Store(v) }
func (x *Pointer[T]) Swap(v *T) *T                { pt(nil); return x.v.Swap(v) }
func (x *Pointer[T]) CompareAndSwap(o, n *T) bool { pt(nil); return x.v.CompareAndSwap(o, n) }

func SwapUintptr(addr *uintptr, v uintptr) uintptr {
	pt(unsafe.Pointer(addr))
	return atomic.SwapUintptr(addr, v)
}
