package simrt

import (
	"sync"
	"unsafe"
)

// Map is a deterministic replacement for goutil.AtomicMap / goutil.RwMap: the same
// method set (goutil.Map), insertion-ordered storage, every operation a sim
// point, and Range/Random orders drawn from the run's PRNG instead of Go's
// randomised map iteration.
type Map struct {
	mu   sync.Mutex
	keys []any
	m    map[any]any
}

// NewMap creates a Map; the optional capacity is ignored.
//
//go:norace
func NewMap(capacity ...int) *Map { return &Map{m: map[any]any{}} }

// SimLabel describes the map in reports.
//
//go:norace
func (m *Map) SimLabel() string { return "map" }

//go:norace
func (m *Map) point() {
	Point(KMap, m, nil)
}

// Load returns the value stored for key.
//
//go:norace
func (m *Map) Load(key any) (any, bool) {
	m.point()
	qlock(&m.mu)
	v, ok := m.m[key]
	qunlock(&m.mu)
	if ok {
		RaceAcquire(unsafe.Pointer(m))
	}
	return v, ok
}

// Store sets the value for key.
//
//go:norace
func (m *Map) Store(key, value any) {
	m.point()
	RaceReleaseMerge(unsafe.Pointer(m))
	qlock(&m.mu)
	if _, ok := m.m[key]; !ok {
		m.keys = append(m.keys, key)
	}
	m.m[key] = value
	qunlock(&m.mu)
}

// LoadOrStore returns the existing value for key if present, else stores value.
//
//go:norace
func (m *Map) LoadOrStore(key, value any) (any, bool) {
	m.point()
	RaceReleaseMerge(unsafe.Pointer(m))
	qlock(&m.mu)
	defer qunlock(&m.mu)
	if v, ok := m.m[key]; ok {
		RaceAcquire(unsafe.Pointer(m))
		return v, true
	}
	m.keys = append(m.keys, key)
	m.m[key] = value
	return value, false
}

//go:norace
func (m *Map) snapshot() []any {
	qlock(&m.mu)
	ks := append([]any(nil), m.keys...)
	qunlock(&m.mu)
	if s := Active(); s != nil && len(ks) > 1 {
		// iteration order is a PRNG choice (Go map order is random)
		p := s.Aux.Perm(len(ks))
		out := make([]any, len(ks))
		for i, j := range p {
			out[i] = ks[j]
		}
		return out
	}
	return ks
}

// Range calls f for each entry present; like sync.Map it holds no lock while f runs.
//
//go:norace
func (m *Map) Range(f func(key, value any) bool) {
	m.point()
	for _, k := range m.snapshot() {
		qlock(&m.mu)
		v, ok := m.m[k]
		qunlock(&m.mu)
		if !ok {
			continue
		}
		RaceAcquire(unsafe.Pointer(m))
		if !f(k, v) {
			return
		}
	}
}

// Random returns some entry.
//
//go:norace
func (m *Map) Random() (any, any, bool) {
	m.point()
	ks := m.snapshot()
	for _, k := range ks {
		qlock(&m.mu)
		v, ok := m.m[k]
		qunlock(&m.mu)
		if ok {
			RaceAcquire(unsafe.Pointer(m))
			return k, v, true
		}
	}
	return nil, nil, false
}

// Delete removes key.
//
//go:norace
func (m *Map) Delete(key any) {
	m.point()
	qlock(&m.mu)
	if _, ok := m.m[key]; ok {
		delete(m.m, key)
		for i, k := range m.keys {
			if k == key {
				m.keys = append(m.keys[:i], m.keys[i+1:]...)
				break
			}
		}
	}
	qunlock(&m.mu)
}

// Clear removes everything.
//
//go:norace
func (m *Map) Clear() {
	m.point()
	qlock(&m.mu)
	m.keys = nil
	m.m = map[any]any{}
	qunlock(&m.mu)
}

// Len returns the number of entries.
//
//go:norace
func (m *Map) Len() int {
	m.point()
	qlock(&m.mu)
	n := len(m.m)
	qunlock(&m.mu)
	return n
}
