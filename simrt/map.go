package simrt

import (
	"sync"
	"time"
	"unsafe"
)

// Map is a deterministic replacement for goutil.AtomicMap / goutil.RwMap: the same
// method set (goutil.Map), insertion-ordered storage, every operation a sim
// point, and Range/Random orders drawn from the run's PRNG instead of Go's
// randomised map iteration.
type Map struct {
	mu   sync.Mutex
	keys []any
	m    map[any]any
}

// NewMap creates a Map; the optional capacity is ignored.
//
//go:norace
func NewMap(capacity ...int) *Map { return &Map{m: map[any]any{}} }

// SimLabel describes the map in reports.
//
//go:norace
func (m *Map) SimLabel() string { return "map" }

//go:norace
func (m *Map) point() {
	Point(KMap, m, nil)
}

// Load returns the value stored for key.
//
//go:norace
func (m *Map) Load(key any) (any, bool) {
	m.point()
	qlock(&m.mu)
	v, ok := m.m[key]
	qunlock(&m.mu)
	if ok {
		RaceAcquire(unsafe.Pointer(m))
	}
	return v, ok
}

// Store sets the value for key.
//
//go:norace
func (m *Map) Store(key, value any) {
	m.point()
	RaceReleaseMerge(unsafe.Pointer(m))
	qlock(&m.mu)
	if _, ok := m.m[key]; !ok {
		m.keys = append(m.keys, key)
	}
	m.m[key] = value
	qunlock(&m.mu)
}

// LoadOrStore returns the existing value for key if present, else stores value.
//
//go:norace
func (m *Map) LoadOrStore(key, value any) (any, bool) {
	m.point()
	RaceReleaseMerge(unsafe.Pointer(m))
	qlock(&m.mu)
	defer qunlock(&m.mu)
	if v, ok := m.m[key]; ok {
		RaceAcquire(unsafe.Pointer(m))
		return v, true
	}
	m.keys = append(m.keys, key)
	m.m[key] = value
	return value, false
}

//go:norace
func (m *Map) snapshot() []any {
	qlock(&m.mu)
	ks := append([]any(nil), m.keys...)
	qunlock(&m.mu)
	if s := Active(); s != nil && len(ks) > 1 {
		// iteration order is a PRNG choice (Go map order is random)
		p := s.Aux.Perm(len(ks))
		out := make([]any, len(ks))
		for i, j := range p {
			out[i] = ks[j]
		}
		return out
	}
	return ks
}

// Range calls f for each entry present; like sync.Map it holds no lock while f runs.
//
//go:norace
func (m *Map) Range(f func(key, value any) bool) {
	m.point()
	for _, k := range m.snapshot() {
		qlock(&m.mu)
		v, ok := m.m[k]
		qunlock(&m.mu)
		if !ok {
			continue
		}
		RaceAcquire(unsafe.Pointer(m))
		if !f(k, v) {
			return
		}
	}
}

// Random returns some entry.
//
//go:norace
func (m *Map) Random() (any, any, bool) {
	m.point()
	ks := m.snapshot()
	for _, k := range ks {
		qlock(&m.mu)
		v, ok := m.m[k]
		qunlock(&m.mu)
		if ok {
			RaceAcquire(unsafe.Pointer(m))
			return k, v, true
		}
	}
	return nil, nil, false
}

// Delete removes key.
//
//go:norace
func (m *Map) Delete(key any) {
	m.point()
	qlock(&m.mu)
	if _, ok := m.m[key]; ok {
		delete(m.m, key)
		for i, k := range m.keys {
			if k == key {
				m.keys = append(m.keys[:i], m.keys[i+1:]...)
				break
			}
		}
	}
	qunlock(&m.mu)
}

// Clear removes everything.
//
//go:norace
func (m *Map) Clear() {
	m.point()
	qlock(&m.mu)
	m.keys = nil
	m.m = map[any]any{}
	qunlock(&m.mu)
}

// Len returns the number of entries.
//
//go:norace
func (m *Map) Len() int {
	m.point()
	qlock(&m.mu)
	n := len(m.m)
	qunlock(&m.mu)
	return n
}

// RwMap is the deterministic replacement for goutil.RwMap: a Map behind a readers-writer lock with the locking
// discipline of the original - Load, Len and Random under the read lock, Store, LoadOrStore, Delete and Clear under
// the write lock, and Range holding the read lock while its callback runs.  That discipline is behaviour: a
// callback that waits for a lock whose holder needs the write side of the map deadlocks in the original, and so
// it must here.
type RwMap struct {
	Map
	readers int
	writer  bool
	rtok    int // address for the readers' release-merge edge
}

// NewRwMap creates a RwMap; the optional capacity is ignored.
//
//go:norace
func NewRwMap(capacity ...int) *RwMap { return &RwMap{Map: Map{m: map[any]any{}}} }

// SimLabel describes the map in reports.
//
//go:norace
func (m *RwMap) SimLabel() string { return "rwmap" }

//go:norace
func (m *RwMap) rlock() {
	if Active() == nil {
		return
	}
	Point(KRLock, m, func(time.Time) (bool, time.Time) { return !m.writer, time.Time{} })
	m.readers++
	RaceAcquire(unsafe.Pointer(&m.writer))
}

//go:norace
func (m *RwMap) runlock() {
	if Active() == nil {
		return
	}
	RaceReleaseMerge(unsafe.Pointer(&m.rtok))
	m.readers--
}

//go:norace
func (m *RwMap) lock() {
	if Active() == nil {
		return
	}
	Point(KLock, m, func(time.Time) (bool, time.Time) { return !m.writer && m.readers == 0, time.Time{} })
	m.writer = true
	RaceAcquire(unsafe.Pointer(&m.writer))
	RaceAcquire(unsafe.Pointer(&m.rtok))
}

//go:norace
func (m *RwMap) unlock() {
	if Active() == nil {
		return
	}
	RaceRelease(unsafe.Pointer(&m.writer))
	m.writer = false
}

//go:norace
func (m *RwMap) Load(key any) (any, bool) {
	m.rlock()
	defer m.runlock()
	return m.Map.Load(key)
}

//go:norace
func (m *RwMap) Store(key, value any) {
	m.lock()
	defer m.unlock()
	m.Map.Store(key, value)
}

//go:norace
func (m *RwMap) LoadOrStore(key, value any) (any, bool) {
	m.lock()
	defer m.unlock()
	return m.Map.LoadOrStore(key, value)
}

//go:norace
func (m *RwMap) Range(f func(key, value any) bool) {
	m.rlock()
	defer m.runlock()
	m.Map.Range(f)
}

//go:norace
func (m *RwMap) Random() (any, any, bool) {
	m.rlock()
	defer m.runlock()
	return m.Map.Random()
}

//go:norace
func (m *RwMap) Delete(key any) {
	m.lock()
	defer m.unlock()
	m.Map.Delete(key)
}

//go:norace
func (m *RwMap) Clear() {
	m.lock()
	defer m.unlock()
	m.Map.Clear()
}

//go:norace
func (m *RwMap) Len() int {
	m.rlock()
	defer m.runlock()
	return m.Map.Len()
}
