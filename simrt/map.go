package simrt

import (
	"sync"
	"unsafe"
)

// Map is a deterministic replacement for goutil.AtomicMap / goutil.RwMap: the same
// method set (goutil.Map), insertion-ordered storage, every operation a sim
// point, and Range/Random orders drawn from the run's PRNG instead of Go's
// randomised map iteration.
type Map struct {
	mu   sync.Mutex
	keys []any
	m    map[any]any
}

// NewMap creates a Map; the optional capacity is ignored.
func NewMap(capacity ...int) *Map { return &Map{m: map[any]any{}} }

// SimLabel describes the map in reports.
func (m *Map) SimLabel() string { return "map" }

func (m *Map) point() {
	Point(KMap, m, nil)
}

// Load returns the value stored for key.
func (m *Map) Load(key any) (any, bool) {
	m.point()
	m.mu.Lock()
	v, ok := m.m[key]
	m.mu.Unlock()
	if ok {
		RaceAcquire(unsafe.Pointer(m))
	}
	return v, ok
}

// Store sets the value for key.
func (m *Map) Store(key, value any) {
	m.point()
	RaceReleaseMerge(unsafe.Pointer(m))
	m.mu.Lock()
	if _, ok := m.m[key]; !ok {
		m.keys = append(m.keys, key)
	}
	m.m[key] = value
	m.mu.Unlock()
}

// LoadOrStore returns the existing value for key if present, else stores value.
func (m *Map) LoadOrStore(key, value any) (any, bool) {
	m.point()
	RaceReleaseMerge(unsafe.Pointer(m))
	m.mu.Lock()
	defer m.mu.Unlock()
	if v, ok := m.m[key]; ok {
		RaceAcquire(unsafe.Pointer(m))
		return v, true
	}
	m.keys = append(m.keys, key)
	m.m[key] = value
	return value, false
}

func (m *Map) snapshot() []any {
	m.mu.Lock()
	ks := append([]any(nil), m.keys...)
	m.mu.Unlock()
	if s := Active(); s != nil && len(ks) > 1 {
		// iteration order is a PRNG choice (Go map order is random)
		p := s.Aux.Perm(len(ks))
		out := make([]any, len(ks))
		for i, j := range p {
			out[i] = ks[j]
		}
		return out
	}
	return ks
}

// Range calls f for each entry present; like sync.Map it holds no lock while f runs.
func (m *Map) Range(f func(key, value any) bool) {
	m.point()
	for _, k := range m.snapshot() {
		m.mu.Lock()
		v, ok := m.m[k]
		m.mu.Unlock()
		if !ok {
			continue
		}
		RaceAcquire(unsafe.Pointer(m))
		if !f(k, v) {
			return
		}
	}
}

// Random returns some entry.
func (m *Map) Random() (any, any, bool) {
	m.point()
	ks := m.snapshot()
	for _, k := range ks {
		m.mu.Lock()
		v, ok := m.m[k]
		m.mu.Unlock()
		if ok {
			RaceAcquire(unsafe.Pointer(m))
			return k, v, true
		}
	}
	return nil, nil, false
}

// Delete removes key.
func (m *Map) Delete(key any) {
	m.point()
	m.mu.Lock()
	if _, ok := m.m[key]; ok {
		delete(m.m, key)
		for i, k := range m.keys {
			if k == key {
				m.keys = append(m.keys[:i], m.keys[i+1:]...)
				break
			}
		}
	}
	m.mu.Unlock()
}

// Clear removes everything.
func (m *Map) Clear() {
	m.point()
	m.mu.Lock()
	m.keys = nil
	m.m = map[any]any{}
	m.mu.Unlock()
}

// Len returns the number of entries.
func (m *Map) Len() int {
	m.point()
	m.mu.Lock()
	n := len(m.m)
	m.mu.Unlock()
	return n
}
