//go:build !race

package simrt

import "unsafe"

// RaceEnabled reports whether the binary was built with -race.
const RaceEnabled = false

func raceDisable() {}
func raceEnable()  {}

func RaceAcquire(p unsafe.Pointer)           {}
func RaceRelease(p unsafe.Pointer)           {}
func RaceReleaseMerge(p unsafe.Pointer)      {}
func RaceRead(p unsafe.Pointer)              {}
func RaceWrite(p unsafe.Pointer)             {}
func RaceReadRange(p unsafe.Pointer, n int)  {}
func RaceWriteRange(p unsafe.Pointer, n int) {}
