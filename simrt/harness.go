package simrt

import (
	"time"
	"unsafe"
)

// harnessTok stands for "a harness task ended": harness code relies on the scheduler token instead of
// locks.  A harness task that ends releases on this address and a harness task that returns from WaitCond,
// WaitClosed or WaitQuiescent acquires it - the edge a WaitGroup or a channel would give a real program that
// waits for its workers.  Nothing else is ordered: in particular Yield publishes nothing, so two harness tasks
// that use one session at the same time stay unordered for the race detector however the scheduler
// interleaved them, and goroutines of the system under test never touch the token.
var harnessTok int

//go:norace
func hRelease() { RaceReleaseMerge(unsafe.Pointer(&harnessTok)) }

//go:norace
func hAcquire() { RaceAcquire(unsafe.Pointer(&harnessTok)) }

// YieldQuiet is Yield (kept for handlers and plugins, which run on the goroutines of the system under test
// and must never synchronise through the harness).
//
//go:norace
func YieldQuiet() { Point(KYield, nil, nil) }

// coarseTick is the granularity of goutil/coarsetime (its ticker period).
const coarseTick = 100 * time.Millisecond

// CeilingTimeNow stands in for coarsetime.CeilingTimeNow: the (fake) current time rounded up to the next
// tick of the coarse clock.  The real one is driven by a real-time ticker started in init, outside any
// bubble, so deadlines computed from it would never pass on the simulated clock.
//
//go:norace
func CeilingTimeNow() time.Time { return time.Now().Truncate(coarseTick).Add(coarseTick) }

// FloorTimeNow stands in for coarsetime.FloorTimeNow.
//
//go:norace
func FloorTimeNow() time.Time { return time.Now().Truncate(coarseTick) }
