package simrt

import "sync"

// qlock/qunlock protect simulator bookkeeping with a real mutex while keeping the race detector blind for
// the whole critical section: neither the mutex (which would order the tasks of the system under test and
// hide its races) nor the bookkeeping accesses themselves (maps and slices are reported by the runtime
// even inside //go:norace functions) are seen.  The goroutine must not park between the two calls.

//go:norace
func qlock(mu *sync.Mutex) { raceDisable(); mu.Lock() }

//go:norace
func qunlock(mu *sync.Mutex) { mu.Unlock(); raceEnable() }

// QuietBegin/QuietEnd bracket simulator-side code outside simrt (simnet) the same way.
//
//go:norace
func QuietBegin() { raceDisable() }

//go:norace
func QuietEnd() { raceEnable() }
