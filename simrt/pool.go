package simrt

import "sync"

// PoolState is the storage behind simsync.Pool: a deterministic stack that is
// emptied at the start and end of every run, so a run never depends on what an
// earlier run left behind, and reuse inside a run is immediate and certain
// (sync.Pool gives neither).
type PoolState struct {
	mu    sync.Mutex
	items []any
	reg   bool
	Gets  int
	Hits  int
}

type poolState = PoolState

var (
	poolsMu sync.Mutex
	pools   []*PoolState
)

func resetPools() {
	poolsMu.Lock()
	for _, p := range pools {
		p.mu.Lock()
		p.items = nil
		p.Gets, p.Hits = 0, 0
		p.mu.Unlock()
	}
	poolsMu.Unlock()
}

// PoolReuse returns total gets and hits over all pools in this run.
func PoolReuse() (gets, hits int) {
	poolsMu.Lock()
	for _, p := range pools {
		p.mu.Lock()
		gets += p.Gets
		hits += p.Hits
		p.mu.Unlock()
	}
	poolsMu.Unlock()
	return
}

func (p *PoolState) register() {
	if !p.reg {
		p.reg = true
		poolsMu.Lock()
		pools = append(pools, p)
		poolsMu.Unlock()
	}
}

// Get pops an object (LIFO by default).
func (p *PoolState) Get() (any, bool) {
	s := Active()
	p.mu.Lock()
	defer p.mu.Unlock()
	p.register()
	p.Gets++
	n := len(p.items)
	if n == 0 {
		return nil, false
	}
	i := n - 1
	if s != nil {
		if s.cfg.PoolMissP > 0 && s.Aux.Chance(s.cfg.PoolMissP) {
			return nil, false // buggify: behave like a pool miss
		}
		switch s.cfg.PoolMode {
		case 1:
			i = 0
		case 2:
			i = s.Aux.Intn(n)
		}
	}
	x := p.items[i]
	p.items = append(p.items[:i], p.items[i+1:]...)
	p.Hits++
	return x, true
}

// Put pushes an object.
func (p *PoolState) Put(x any) {
	p.mu.Lock()
	p.register()
	if len(p.items) < 1024 {
		p.items = append(p.items, x)
	}
	p.mu.Unlock()
}

// AllocProbe is called (in instrumented builds) at the top of
// utils.(*ByteBuffer).ChangeLen with the requested length.
var allocProbe func(n int)

// SetAllocProbe installs the observer of buffer growth requests.
func SetAllocProbe(fn func(n int)) { allocProbe = fn }

// AllocProbe reports a buffer growth request.
func AllocProbe(n int) {
	if fn := allocProbe; fn != nil {
		fn(n)
	}
}
