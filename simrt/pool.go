package simrt

import (
	"sync"
	"unsafe"
)

// PoolState is the storage behind simsync.Pool: a deterministic stack that is
// emptied at the start and end of every run, so a run never depends on what an
// earlier run left behind, and reuse inside a run is immediate and certain
// (sync.Pool gives neither).
type PoolState struct {
	mu    sync.Mutex
	items []any
	reg   bool
	Gets  int
	Hits  int
}

type poolState = PoolState

var (
	poolsMu sync.Mutex
	pools   []*PoolState
)

//go:norace
func resetPools() {
	qlock(&poolsMu)
	for _, p := range pools {
		qlock(&p.mu)
		p.items = nil
		p.Gets, p.Hits = 0, 0
		qunlock(&p.mu)
	}
	qunlock(&poolsMu)
}

// PoolReuse returns total gets and hits over all pools in this run.
//
//go:norace
func PoolReuse() (gets, hits int) {
	qlock(&poolsMu)
	for _, p := range pools {
		qlock(&p.mu)
		gets += p.Gets
		hits += p.Hits
		qunlock(&p.mu)
	}
	qunlock(&poolsMu)
	return
}

//go:norace
func (p *PoolState) register() {
	if !p.reg {
		p.reg = true
		qlock(&poolsMu)
		pools = append(pools, p)
		qunlock(&poolsMu)
	}
}

// Get pops an object (LIFO by default).
//
//go:norace
func (p *PoolState) Get() (any, bool) {
	x, ok := p.get()
	if ok && RaceEnabled {
		RaceAcquire(poolRaceAddr(x))
	}
	return x, ok
}

//go:norace
func (p *PoolState) get() (any, bool) {
	s := Active()
	qlock(&p.mu)
	defer qunlock(&p.mu)
	p.register()
	p.Gets++
	n := len(p.items)
	if n == 0 {
		return nil, false
	}
	i := n - 1
	if s != nil {
		if s.cfg.PoolMissP > 0 && s.Aux.Chance(s.cfg.PoolMissP) {
			return nil, false // buggify: behave like a pool miss
		}
		switch s.cfg.PoolMode {
		case 1:
			i = 0
		case 2:
			i = s.Aux.Intn(n)
		}
	}
	x := p.items[i]
	for j := i; j+1 < n; j++ { // manual shift: the runtime's slice copy reports to the race detector
		p.items[j] = p.items[j+1]
	}
	p.items[n-1] = nil
	p.items = p.items[:n-1]
	p.Hits++
	return x, true
}

// poolRaceAddr mirrors sync.Pool: Put(x) happens before the Get that returns x.
var poolRaceHash [128]uint64

//go:norace
func poolRaceAddr(x any) unsafe.Pointer {
	ptr := uintptr((*[2]unsafe.Pointer)(unsafe.Pointer(&x))[1])
	h := uint32((uint64(uint32(ptr)) * 0x85ebca6b) >> 16)
	return unsafe.Pointer(&poolRaceHash[h%uint32(len(poolRaceHash))])
}

// Put pushes an object.
//
//go:norace
func (p *PoolState) Put(x any) {
	if RaceEnabled {
		RaceReleaseMerge(poolRaceAddr(x))
	}
	qlock(&p.mu)
	p.register()
	if len(p.items) < 1024 {
		p.items = append(p.items, x)
	}
	qunlock(&p.mu)
}

// AllocProbe is called (in instrumented builds) at the top of
// utils.(*ByteBuffer).ChangeLen with the requested length.
var allocProbe func(n int)

// SetAllocProbe installs the observer of buffer growth requests.
//
//go:norace
func SetAllocProbe(fn func(n int)) { allocProbe = fn }

// AllocProbe reports a buffer growth request.
//
//go:norace
func AllocProbe(n int) {
	if fn := allocProbe; fn != nil {
		fn(n)
	}
}
