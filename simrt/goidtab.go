package simrt

// goidTab maps goroutine ids to tasks.  It is an open-addressing table over plain arrays instead of a Go
// map because the runtime reports map accesses to the race detector even from //go:norace code, and this
// table is consulted at every sim point.  Callers hold s.mu.
type goidTab struct {
	keys []uint64 // 0 = empty, ^0 = tombstone
	vals []*Task
	used int // occupied + tombstones
}

const goidTomb = ^uint64(0)

//go:norace
func (g *goidTab) slot(k uint64) int {
	return int((k * 0x9e3779b97f4a7c15) >> 32 & uint64(len(g.keys)-1))
}

//go:norace
func (g *goidTab) get(k uint64) *Task {
	if len(g.keys) == 0 {
		return nil
	}
	for i := g.slot(k); ; i = (i + 1) & (len(g.keys) - 1) {
		switch g.keys[i] {
		case k:
			return g.vals[i]
		case 0:
			return nil
		}
	}
}

//go:norace
func (g *goidTab) put(k uint64, t *Task) {
	if (g.used+1)*2 > len(g.keys) {
		g.grow()
	}
	for i := g.slot(k); ; i = (i + 1) & (len(g.keys) - 1) {
		if g.keys[i] == k {
			g.vals[i] = t
			return
		}
		if g.keys[i] == 0 {
			g.keys[i], g.vals[i] = k, t
			g.used++
			return
		}
	}
}

//go:norace
func (g *goidTab) del(k uint64) {
	if len(g.keys) == 0 {
		return
	}
	for i := g.slot(k); ; i = (i + 1) & (len(g.keys) - 1) {
		switch g.keys[i] {
		case k:
			g.keys[i], g.vals[i] = goidTomb, nil
			return
		case 0:
			return
		}
	}
}

//go:norace
func (g *goidTab) grow() {
	ok, ov := g.keys, g.vals
	n := 1024
	live := 0
	for _, k := range ok {
		if k != 0 && k != goidTomb {
			live++
		}
	}
	for n < live*4 {
		n *= 2
	}
	if n < len(ok) {
		n = len(ok)
	}
	g.keys, g.vals, g.used = make([]uint64, n), make([]*Task, n), 0
	for i, k := range ok {
		if k != 0 && k != goidTomb {
			g.put(k, ov[i])
		}
	}
}
