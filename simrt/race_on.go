//go:build race

package simrt

import (
	"runtime"
	"unsafe"
)

// RaceEnabled reports whether the binary was built with -race.
const RaceEnabled = true

// The token hand-off must not create happens-before edges between tasks, otherwise the
// serialising scheduler would hide every data race of the system under test.
func raceDisable() { runtime.RaceDisable() }
func raceEnable()  { runtime.RaceEnable() }

// RaceAcquire etc. let the sim-aware primitives publish exactly the edges the real ones would.
func RaceAcquire(p unsafe.Pointer)      { runtime.RaceAcquire(p) }
func RaceRelease(p unsafe.Pointer)      { runtime.RaceRelease(p) }
func RaceReleaseMerge(p unsafe.Pointer) { runtime.RaceReleaseMerge(p) }
func RaceRead(p unsafe.Pointer)         { runtime.RaceRead(p) }
func RaceWrite(p unsafe.Pointer)        { runtime.RaceWrite(p) }

// RaceReadRange / RaceWriteRange declare an access to caller memory made by simulator code that is itself
// invisible to the detector (the simulated connection reading from / writing into the caller's buffer).
func RaceReadRange(p unsafe.Pointer, n int)  { runtime.RaceReadRange(p, n) }
func RaceWriteRange(p unsafe.Pointer, n int) { runtime.RaceWriteRange(p, n) }
