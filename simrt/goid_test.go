package simrt

import "testing"

func TestGoid(t *testing.T) {
	if goidOff < 0 {
		t.Fatalf("goid offset calibration failed")
	}
	done := make(chan bool)
	for i := 0; i < 20; i++ {
		go func() { done <- goid() == slowGoid() }()
	}
	for i := 0; i < 20; i++ {
		if !<-done {
			t.Fatal("goid mismatch")
		}
	}
	t.Logf("goid offset %d", goidOff)
}
