package props

import (
	"fmt"
	"sort"
	"strings"
	"testing"
	"time"

	erpc "github.com/henrylee2cn/erpc/v6"

	"simrt"
	"verif/world"
)

// C13 - a redial-enabled client session survives connection loss.
//
// One client peer (RedialTimes in {1,2,3,-1}, fake RedialInterval) with a user-assigned id, one server
// behind a simulated listener with availability windows; client tasks keep calling and pushing while
// the seed places cuts (idle, while writing, while awaiting a reply, during a redial, twice in a row),
// server-down windows and dial-hook rejections on the fake clock.  After the last fault the server
// is up (recover runs) or stays down (exhaust runs) and the system runs to quiescence.
// Oracle: no call hangs; OK calls carry their own reply, failed ones a connection-class status;
// if the close notification did not fire the same Session value is healthy, the redial hook ran,
// the user id is kept, the index lists it under that id and a fresh call succeeds; if it fired,
// the last redial round really consisted of 1+RedialTimes consecutive failed attempts (budget is per
// loss), the index dropped it and a later call fails within one bounded round instead of hanging.

func init() { register(&Prop{ID: "C13", Run: runC13}) }

type c13Fault struct {
	at   time.Duration
	kind string // cut | down | up | reject
	n    int
}

func runC13(t *testing.T, seed uint64, m *Mask) *Report {
	sc, nc, r := swarm(seed, m)
	sc.Horizon = 2 * time.Minute
	opt := world.Options{Seed: seed, Sim: sc, Net: nc}
	proto := []string{"raw", "raw", "json", "pb", "thrift-binary"}[r.Intn(5)]
	budget := []int32{1, 2, 3, -1}[r.Intn(4)]
	interval := []time.Duration{20 * time.Millisecond, 50 * time.Millisecond, 100 * time.Millisecond}[r.Intn(3)]
	exhaust := budget > 0 && r.Chance(0.3)
	userID := r.Chance(0.7)
	// fault plan on the fake clock.  Two spaces: "sequential" - loss groups are far enough apart for a
	// redial round to finish and callers only issue operations in the quiet windows between groups (calls may
	// still be awaiting their reply when the cut lands); "overlapping" - cuts, down windows and caller
	// traffic are placed freely, so a loss may be noticed by a writer and the reader at once, or arrive while a
	// redial is in progress.
	overlapping := r.Chance(0.3)
	slowP := []float64{0, 0.3, 0.8}[r.Intn(3)]
	var faults []c13Fault
	type window struct{ from, to time.Duration }
	var quiet []window
	tcur := time.Duration(5+r.Intn(20)) * time.Millisecond
	quiet = append(quiet, window{0, tcur - 2*time.Millisecond})
	round := time.Duration(absI32(budget)+2) * interval
	nF := 1 + r.Intn(4)
	var cutTimes []time.Duration
	for i := 0; i < nF; i++ {
		var down time.Duration
		switch r.Intn(5) {
		case 0, 1:
			faults = append(faults, c13Fault{at: tcur, kind: "cut"})
			cutTimes = append(cutTimes, tcur)
		case 2:
			// server down for a while that may or may not outlast the round
			down = time.Duration(r.Intn(int(round) + 1))
			faults = append(faults, c13Fault{at: tcur, kind: "down"})
			faults = append(faults, c13Fault{at: tcur + time.Duration(r.Intn(3))*time.Millisecond, kind: "cut"})
			faults = append(faults, c13Fault{at: tcur + down, kind: "up"})
			cutTimes = append(cutTimes, tcur)
		case 3:
			faults = append(faults, c13Fault{at: tcur, kind: "reject", n: 1 + r.Intn(2)})
			faults = append(faults, c13Fault{at: tcur + time.Millisecond, kind: "cut"})
			cutTimes = append(cutTimes, tcur+time.Millisecond)
		case 4:
			if overlapping {
				// two losses in a row
				faults = append(faults, c13Fault{at: tcur, kind: "cut"})
				faults = append(faults, c13Fault{at: tcur + time.Duration(1+r.Intn(int(interval/time.Millisecond)+5))*time.Millisecond, kind: "cut"})
			} else {
				faults = append(faults, c13Fault{at: tcur, kind: "cut"})
			}
			cutTimes = append(cutTimes, tcur)
		}
		if overlapping {
			tcur += down + time.Duration(10+r.Intn(300))*time.Millisecond
		} else {
			settle := tcur + down + round + 100*time.Millisecond
			tcur = settle + time.Duration(20+r.Intn(200))*time.Millisecond
			quiet = append(quiet, window{settle, tcur - 2*time.Millisecond})
		}
	}
	if exhaust {
		faults = append(faults, c13Fault{at: tcur, kind: "down"}, c13Fault{at: tcur + time.Millisecond, kind: "cut"})
	}
	lastFault := tcur + 2*time.Millisecond
	// workload: each op has an issue time
	nCallers := 1 + r.Intn(3)
	var ops []*world.Op
	issueAt := map[int]time.Duration{}
	addOp := func(caller int, at time.Duration) {
		op := world.GenOp(r, len(ops), seed, proto)
		if len(op.Data) > 40 {
			op.Data = op.Data[:40]
		}
		op.Pipe = nil
		op.Caller = caller
		op.HYield = r.Intn(4)
		if r.Chance(0.4) {
			op.HSleep = time.Duration(1+r.Intn(12)) * time.Millisecond
		}
		issueAt[op.Idx] = at
		ops = append(ops, op)
	}
	if overlapping {
		for k := 0; k < nCallers; k++ {
			n := 2 + r.Intn(6)
			var times []time.Duration
			for j := 0; j < n; j++ {
				times = append(times, time.Duration(r.Intn(int(lastFault)+1)))
			}
			sort.Slice(times, func(a, b int) bool { return times[a] < times[b] })
			for _, at := range times {
				addOp(k, at)
			}
		}
	} else {
		// one caller works through the quiet windows, one operation at a time (so that a session that has
		// given up is only ever used by one goroutine at a time); further tasks issue exactly one call each
		// shortly before a cut, so that it is awaiting its reply when the connection is lost
		n := 2 + r.Intn(8)
		var times []time.Duration
		for j := 0; j < n; j++ {
			w := quiet[r.Intn(len(quiet))]
			times = append(times, w.from+time.Duration(r.Intn(int(w.to-w.from)+1)))
		}
		sort.Slice(times, func(a, b int) bool { return times[a] < times[b] })
		for _, at := range times {
			addOp(0, at)
		}
		nCallers = 1
		for k := 0; k < r.Intn(4) && len(cutTimes) > 0; k++ {
			addOp(nCallers, cutTimes[r.Intn(len(cutTimes))]-time.Duration(1+r.Intn(4))*time.Millisecond)
			ops[len(ops)-1].Kind = "call"
			if ops[len(ops)-1].Route == "note" {
				ops[len(ops)-1].Route = "echo"
			} else if ops[len(ops)-1].Route == "note_plain" {
				ops[len(ops)-1].Route = "plain"
			}
			nCallers++
		}
	}
	rep := &Report{NOps: len(ops), NFaults: len(faults)}
	space := "sequential"
	if overlapping {
		space = "overlapping"
	}
	rep.Cell = fmt.Sprintf("%s,budget=%d,interval=%v,exhaust=%v,userid=%v,space=%s", proto, budget, interval, exhaust, userID, space)
	var plan []string
	for i, f := range faults {
		if !m.faultDropped(i) {
			plan = append(plan, fmt.Sprintf("%s@%v", f.kind, f.at))
		}
	}

	out := world.Run(t, opt, func(e *world.Env) {
		for _, op := range ops {
			if m.opDropped(op.Idx) {
				op.Dropped = true
			} else {
				e.OpByTag[op.Tag] = op
			}
		}
		rejectN := 0
		var rejectSteps []int
		rec := &world.Recorder{PName: "rec-cli", Env: e, Stages: map[string]bool{"PostDial": true, "PostRedial": true, "PostDisconnect": true},
			Verdict: func(stage string, mtype byte, method string, seq int32) *erpc.Status {
				if stage == "PostRedial" && rejectN > 0 {
					rejectN--
					rejectSteps = append(rejectSteps, e.Sched.Stats.Steps)
					e.Net.Fault("dial_hook_reject")
					return erpc.NewStatus(1403, "redial refused by hook", "hook")
				}
				return nil
			}}
		pf := world.ProtoFunc(proto)
		srv := e.NewPeer("srv", erpc.PeerConfig{})
		rt := e.RegisterStd(srv)
		lis := e.Serve(srv, "10.9.0.1:9000", pf)
		// a slow plugin on the caller's side keeps a call "being launched" (written, AsyncCall not yet returned)
		// for a while, so that a loss noticed by the reader can land there; before the write only in the
		// overlapping space, where the writer may notice the loss as well
		slow := &world.Slow{Env: e, P: slowP, PostLaunch: true, PreLaunch: overlapping, LaunchMax: 6 * time.Millisecond}
		cli := e.NewPeer("cli", erpc.PeerConfig{RedialTimes: budget, RedialInterval: interval}, rec, slow)
		sess, st := cli.Dial("10.9.0.1:9000", pf)
		if !st.OK() {
			e.Fail("infra-dial-failed", "dial: %v", st)
			return
		}
		wantID := sess.ID()
		if userID {
			wantID = "user-1"
			sess.SetID(wantID)
		}
		start := time.Now()
		var endedAt time.Time
		simrt.GoNamed("close-watcher", func() {
			simrt.SetDaemon()
			simrt.WaitClosed(sess.CloseNotify())
			endedAt = time.Now()
		})
		for i, f := range faults {
			if m.faultDropped(i) {
				continue
			}
			f := f
			e.Sched.After(f.at, func() {
				switch f.kind {
				case "cut":
					// the newest connection to the server, if it is still alive
					for j := len(e.Net.Conns) - 1; j >= 0; j-- {
						c := e.Net.Conns[j]
						if !c.IsClosed() && !c.IsBroken() {
							c.CutNow()
							break
						}
					}
				case "down":
					lis.Down = true
					e.Net.Fault("listener_down")
				case "up":
					lis.Down = false
					e.Net.Fault("listener_up")
				case "reject":
					rejectN += f.n
				}
			})
		}
		running := 0
		quietAbs := make([][2]time.Duration, len(quiet))
		for i, w := range quiet {
			quietAbs[i] = [2]time.Duration{w.from, w.to}
		}
		for k := 0; k < nCallers; k++ {
			var mine []*world.Op
			for _, op := range ops {
				if op.Caller == k && !op.Dropped {
					mine = append(mine, op)
				}
			}
			if len(mine) == 0 {
				continue
			}
			running++
			simrt.GoNamed(fmt.Sprintf("caller%d", k), func() {
				defer func() { running-- }()
				for _, op := range mine {
					if d := issueAt[op.Idx] - time.Since(start); d > 0 {
						simrt.Sleep(d)
					}
					if !overlapping && time.Since(start) < lastFault && !inQuiet(quietAbs, time.Since(start)) && !nearCut(cutTimes, time.Since(start)) {
						// running late (an earlier call took long): wait for the next quiet window
						if d := nextQuiet(quietAbs, time.Since(start)) - time.Since(start); d > 0 {
							simrt.Sleep(d)
						}
					}
					e.Issue(sess, rt, op, nil)
				}
			})
		}
		// wait until every planned fault has been applied, then let the system settle
		simrt.Sleep(lastFault + time.Millisecond)
		simrt.WaitQuiescent()
		// signature of the redial ownership race: status edges of the client session that only occur when the
		// reader of an old connection finishes tearing down after another goroutine already re-established it
		sig := map[string]bool{}
		cur := int32(0)
		for _, ev := range e.Obs.Status {
			if ev.Sess != sess {
				continue
			}
			edge := fmt.Sprintf("%s->%s", stName(cur), stName(ev.To))
			switch edge {
			case "ok->passiveClosed", "redialing->passiveClosing", "preparing->passiveClosing", "redialing->passiveClosed", "preparing->passiveClosed":
				sig[edge] = true
			}
			cur = ev.To
		}
		var sigs []string
		for k := range sig {
			sigs = append(sigs, k)
		}
		sortStrings(sigs)
		hist := fmt.Sprintf("space=%s overlap=%v budget=%d interval=%v plan=[%s]", space, sigs, budget, interval, strings.Join(plan, " "))
		e.CheckSettled("C13/task-stuck-at-quiescence", "| "+hist)
		if running != 0 {
			e.Fail("C13/caller-hangs", "%d caller task(s) never finished although faults stopped and the system is quiescent | %s", running, hist)
		}
		for _, op := range ops {
			if op.Dropped || !op.Issued {
				continue
			}
			if !op.Done {
				e.Fail("C13/call-never-completes", "op %s %s not complete at quiescence | %s", op.Tag, op.Kind, hist)
				continue
			}
			if op.OK {
				if op.Kind != "push" && (op.Result.Tag != op.Tag || op.Result.Data != world.ExpectData(op)) {
					e.Fail("C13/ok-without-own-reply", "op %s: OK but result %q | %s", op.Tag, op.ResultStr, hist)
				}
			} else if op.Code != erpc.CodeConnClosed && op.Code != erpc.CodeWriteFailed && op.Code != erpc.CodeDialFailed {
				e.Fail("C13/non-connection-status", "op %s failed with %d %q %q, not a connection-class status | %s", op.Tag, op.Code, op.Msg, op.Cause, hist)
			}
		}
		// dial attempts since the first dial: runs of consecutive failures
		attempts := e.Net.DialLog[1:]
		failed := func(i int) bool {
			if !attempts[i].OK {
				return true
			}
			// connected, but did the dial hook refuse it afterwards (before the next attempt)?
			for _, rs := range rejectSteps {
				if rs >= attempts[i].Step && (i == len(attempts)-1 || rs < attempts[i+1].Step) {
					return true
				}
			}
			return false
		}
		// every time the status is stored as passively closed a redial round has given up ("the session ends")
		var episodes []int
		final := int32(0)
		for _, ev := range e.Obs.Status {
			if ev.Sess != sess {
				continue
			}
			if ev.To == 5 {
				episodes = append(episodes, ev.Step)
			}
			final = ev.To
		}
		notified := !endedAt.IsZero()
		if notified != (len(episodes) > 0) {
			e.Fail("C13/close-notify-disagrees-with-status", "close notification fired=%v but the session gave up %d times | %s", notified, len(episodes), hist)
		}
		redials := 0
		for _, pe := range e.Obs.Plugins {
			if pe.Stage == "PostRedial" {
				redials++
			}
		}
		for _, ep := range episodes {
			e.Probe("ended")
			if budget < 0 {
				e.Fail("C13/unlimited-budget-session-ended", "RedialTimes<0 but the session gave up | %s", hist)
				break
			}
			fails := 0
			for i := len(attempts) - 1; i >= 0; i-- {
				if attempts[i].Step > ep {
					continue
				}
				if !failed(i) {
					break
				}
				fails++
			}
			if fails < int(budget)+1 {
				var al []string
				for i, a := range attempts {
					al = append(al, fmt.Sprintf("%v:%v", a.At.Sub(start).Round(time.Millisecond), !failed(i)))
				}
				e.Fail("C13/ended-before-budget-exhausted", "the session gave up at step %d after %d consecutive failed attempts; a round has 1+%d | attempts=%v | %s", ep, fails, budget, al, hist)
			}
		}
		switch final {
		case 1:
			e.Probe("alive-at-end")
			if !lis.Down {
				if !sess.Health() {
					e.Fail("C13/not-healthy-after-recovery", "faults stopped, server is up, status ok, but Health() is false | %s", hist)
				}
				if len(attempts) > 0 && redials == 0 {
					e.Fail("C13/redial-hook-not-run", "the connection was lost and re-established but PostDial(isRedial=true) never ran | %s", hist)
				}
				if !userID {
					wantID = sess.LocalAddr().String() // a default id follows the local address of the new connection
				}
				if got := sess.ID(); got != wantID {
					e.Fail("C13/id-not-kept", "session id is %q after redial, want %q | %s", got, wantID, hist)
				}
				if s, ok := cli.GetSession(wantID); !ok || s != sess {
					var ids []string
					cli.RangeSession(func(x erpc.Session) bool { ids = append(ids, x.ID()); return true })
					e.Fail("C13/not-indexed-after-redial", "index does not list the session under %q (found=%v, index=%v) | %s", wantID, ok, ids, hist)
				}
				tagN := &world.Op{Idx: 9999, Tag: fmt.Sprintf("T%x.fresh", seed&0xffffff), Kind: "call", Route: "echo", Data: "fresh", MetaK: "Mk", MetaV: "v", Codec: 'j'}
				e.OpByTag[tagN.Tag] = tagN
				e.Issue(sess, rt, tagN, nil)
				if !tagN.OK || tagN.Result.Tag != tagN.Tag {
					e.Fail("C13/fresh-call-fails-after-recovery", "a fresh call after recovery returned %d %q %q | %s", tagN.Code, tagN.Msg, tagN.Cause, hist)
				}
			}
		case 5, 7:
			e.Probe("ended-at-end")
			if !notified {
				e.Fail("C13/close-notify-missing", "the session gave up but CloseNotify has not fired | %s", hist)
			}
			if s, ok := cli.GetSession(sess.ID()); ok && s == sess {
				e.Fail("C13/ended-session-still-indexed", "the session gave up but the index still lists %q | %s", sess.ID(), hist)
			}
			if userID {
				if s, ok := cli.GetSession("user-1"); ok && s == sess {
					e.Fail("C13/ended-session-still-indexed", "the session gave up but the index still lists it under \"user-1\" | %s", hist)
				}
			}
			if lis.Down {
				// a later call must fail within one bounded round, not hang
				t0 := time.Now()
				late := &world.Op{Idx: 9998, Tag: fmt.Sprintf("T%x.late", seed&0xffffff), Kind: "call", Route: "echo", Data: "late", MetaK: "Mk", MetaV: "v", Codec: 'j'}
				e.OpByTag[late.Tag] = late
				doneLate := false
				simrt.GoNamed("late-caller", func() { e.Issue(sess, rt, late, nil); doneLate = true })
				simrt.WaitQuiescent()
				if !doneLate {
					e.Fail("C13/late-call-hangs", "a call issued after the session ended never completed | %s", hist)
				} else {
					if late.OK {
						e.Fail("C13/late-call-ok-with-server-down", "a call on the ended session succeeded although the server is down")
					}
					if el, bound := time.Since(t0), time.Duration(budget+2)*interval+50*time.Millisecond; el > bound {
						e.Fail("C13/late-call-too-slow", "a call on the ended session took %v of fake time, more than one bounded round (%v) | %s", el, bound, hist)
					}
				}
			}
		default:
			e.Fail("C13/stuck-in-transient-state", "faults stopped and the system is quiescent but the session status is %s | %s", stName(final), hist)
		}
		if lis.Down && budget > 0 && final == 1 && exhaust {
			e.Fail("C13/session-did-not-end", "server is down for good and the budget is %d but the session is still ok | %s", budget, hist)
		}
		e.CloseAll()
	})
	rep.Sample = strings.Join(plan, " ") + " | " + sampleOps(ops, 3)
	return finish(rep, out)
}

func inQuiet(q [][2]time.Duration, t time.Duration) bool {
	for _, w := range q {
		if t >= w[0] && t <= w[1] {
			return true
		}
	}
	return false
}

func nearCut(cuts []time.Duration, t time.Duration) bool {
	for _, c := range cuts {
		if t >= c-6*time.Millisecond && t < c {
			return true
		}
	}
	return false
}

func nextQuiet(q [][2]time.Duration, t time.Duration) time.Duration {
	best := time.Duration(-1)
	for _, w := range q {
		if w[0] >= t && (best < 0 || w[0] < best) {
			best = w[0]
		}
	}
	if best < 0 {
		return t // no quiet window left: after the last fault everything is quiet
	}
	return best
}

func absI32(v int32) int32 {
	if v < 0 {
		return 3
	}
	return v
}
