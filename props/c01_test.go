package props

import (
	"fmt"
	"strings"
	"testing"

	erpc "github.com/henrylee2cn/erpc/v6"

	"simrt"
	"verif/world"
)

// C01 - a call's result is the reply to that call, under any concurrency.
//
// Workload: 2-3 real peers, 1-4 sessions (ServeConn pairs and dial/listen pairs, both
// directions used), 1-4 caller tasks per session end issuing Call / AsyncCall / Push with
// uniquely tagged payloads over a per-session protocol and per-op codec and filter pipe.
// No connection faults (equality is exact); the network only delays and segments.
// Oracle: every completed call carries exactly f(its own arg, its own meta); every handler
// and push receiver saw exactly one sent message (body and metadata), on the right session,
// at most once; at quiescence every call is complete and OK and every push was delivered once.

func init() { register(&Prop{ID: "C01", Run: runC01}) }

type c01Conn struct {
	a, b    int // peer indexes (a = client side)
	proto   string
	dial    bool
	sa, sb  erpc.Session
	callers [2]int // number of caller tasks on client side / server side
}

func runC01(t *testing.T, seed uint64, m *Mask) *Report {
	sc, nc, r := swarm(seed, m)
	opt := world.Options{Seed: seed, Sim: sc, Net: nc}
	opt.LogLevel = []string{"OFF", "OFF", "TRACE"}[r.Intn(3)]
	opt.ReaderSize = []int{16, 64, 1024, 4096}[r.Intn(4)]
	opt.Mapper = []string{"http", "http", "rpc"}[r.Intn(3)]
	slowP := []float64{0, 0, 0.2, 0.6}[r.Intn(4)]
	nPeers := 2 + r.Intn(2)
	nConns := 1 + r.Intn(4)
	conns := make([]*c01Conn, nConns)
	protos := world.StreamProtos()
	listenProto := map[int]string{}
	for i := range conns {
		c := &c01Conn{proto: protos[r.Intn(len(protos))], dial: r.Chance(0.4)}
		c.a = r.Intn(nPeers)
		c.b = (c.a + 1 + r.Intn(nPeers-1)) % nPeers
		c.callers[0] = 1 + r.Intn(4)
		c.callers[1] = r.Intn(3)
		if c.dial {
			// one listener per peer: the iteration order of peer.listeners (a native Go map) is not
			// under the simulator's control, so scenarios never give a peer two listeners
			if lp, ok := listenProto[c.b]; ok {
				c.proto = lp
			} else {
				listenProto[c.b] = c.proto
			}
		}
		conns[i] = c
	}
	// operations
	var ops []*world.Op
	for ci, c := range conns {
		for side := 0; side < 2; side++ {
			for k := 0; k < c.callers[side]; k++ {
				n := 1 + r.Intn(6)
				for j := 0; j < n; j++ {
					op := world.GenOp(r, len(ops), seed, c.proto)
					op.Conn, op.ToSrv, op.Caller = ci, side == 0, k
					ops = append(ops, op)
				}
			}
		}
	}
	rep := &Report{NOps: len(ops)}
	cell := map[string]bool{}
	for _, c := range conns {
		cell[c.proto] = true
	}
	rep.Cell = strings.Join(keys(cell), ",")

	out := world.Run(t, opt, func(e *world.Env) {
		for _, op := range ops {
			if !m.opDropped(op.Idx) {
				e.OpByTag[op.Tag] = op
			} else {
				op.Dropped = true
			}
		}
		peers := make([]erpc.Peer, nPeers)
		routes := make([]world.Routes, nPeers)
		for i := range peers {
			rec := &world.Recorder{PName: fmt.Sprintf("rec%d", i), Env: e, Stages: map[string]bool{"PostDisconnect": true}}
			peers[i] = e.NewPeer(fmt.Sprintf("p%d", i), erpc.PeerConfig{}, rec, &world.Slow{Env: e, P: slowP, PostLaunch: true, PreLaunch: true})
			routes[i] = e.RegisterStd(peers[i])
		}
		// sessions
		listening := map[int]bool{}
		for i, c := range conns {
			pf := world.ProtoFunc(c.proto)
			if c.dial {
				addr := fmt.Sprintf("10.9.0.%d:9000", c.b+1)
				if !listening[c.b] {
					listening[c.b] = true
					e.Serve(peers[c.b], addr, pf)
				}
				s, st := peers[c.a].Dial(addr, pf)
				if !st.OK() {
					e.Fail("infra-dial-failed", "dial %s: %v", addr, st)
					return
				}
				c.sa = s
				// find the accepted session on b: the one whose remote address is our local address
				want := s.LocalAddr().String()
				e.Until(func() bool { s := e.FindSession(peers[c.b], want); return s != nil && s.Health() })
				c.sb = e.FindSession(peers[c.b], want)
			} else {
				c.sa, c.sb, _, _ = e.ServePair(peers[c.a], peers[c.b], pf, pf)
			}
			if c.sa == nil || c.sb == nil {
				e.Fail("infra-session-setup", "session %d not established", i)
				return
			}
		}
		// callers
		running := 0
		for ci, c := range conns {
			for side := 0; side < 2; side++ {
				for k := 0; k < c.callers[side]; k++ {
					sess, rt := c.sa, routes[c.b]
					if side == 1 {
						sess, rt = c.sb, routes[c.a]
					}
					var mine []*world.Op
					for _, op := range ops {
						if op.Conn == ci && op.ToSrv == (side == 0) && op.Caller == k && !op.Dropped {
							mine = append(mine, op)
						}
					}
					if len(mine) == 0 {
						continue
					}
					running++
					simrt.GoNamed(fmt.Sprintf("caller%d.%d.%d", ci, side, k), func() {
						defer func() { running-- }()
						for _, op := range mine {
							e.Issue(sess, rt, op, nil)
						}
					})
				}
			}
		}
		simrt.WaitCond(func() bool { return running == 0 })
		simrt.WaitQuiescent()
		e.CheckSettled("C01/task-stuck-at-quiescence")
		checkC01(e, conns, ops)
		e.CloseAll()
	})
	rep.Sample = sampleOps(ops, 4)
	return finish(rep, out)
}

func keys(m map[string]bool) []string {
	var ks []string
	for k := range m {
		ks = append(ks, k)
	}
	sortStrings(ks)
	return ks
}

func checkC01(e *world.Env, conns []*c01Conn, ops []*world.Op) {
	// handler log by tag
	type seen struct {
		n   int
		ev  world.HandlerEvent
		all []string
	}
	byTag := map[string]*seen{}
	for _, ev := range e.Obs.Handlers {
		if ev.Exit {
			continue
		}
		tag := world.TagOf(ev.Arg)
		s := byTag[tag]
		if s == nil {
			s = &seen{}
			byTag[tag] = s
		}
		s.n++
		s.ev = ev
		s.all = append(s.all, fmt.Sprintf("step=%d sess=%s seq=%d method=%s", ev.Step, ev.Sess, ev.Seq, ev.Method))
	}
	for _, op := range ops {
		if op.Dropped {
			continue
		}
		c := conns[op.Conn]
		cellInfo := fmt.Sprintf("proto=%s codec=%q pipe=%v route=%s kind=%s", c.proto, op.Codec, op.Pipe, op.Route, op.Kind)
		if !op.Done {
			e.Fail("C01/call-not-complete-at-quiescence", "op %s (%s) never completed", op.Tag, cellInfo)
			continue
		}
		if !op.OK && c.proto == "http" && op.Kind == "push" {
			// documented: the http protocol carries CALL and REPLY only; the sender must refuse loudly
			e.Probe("http-push-refused-loudly")
			if byTag[op.Tag] != nil {
				e.Fail("C01/refused-push-was-delivered", "op %s (%s) was refused at the sender but a handler saw it", op.Tag, cellInfo)
			}
			continue
		}
		if !op.OK {
			// sub-batch A has no faults: a failure must at least be loud, and only where the sender itself refused
			e.Fail("C01/unexpected-error-status", "op %s (%s) failed without any fault: %d %q %q", op.Tag, cellInfo, op.Code, op.Msg, op.Cause)
			continue
		}
		s := byTag[op.Tag]
		if s == nil {
			e.Fail("C01/message-lost", "op %s (%s) completed OK but no handler saw it", op.Tag, cellInfo)
			continue
		}
		if s.n > 1 {
			e.Fail("C01/message-handled-twice", "op %s (%s kind2=%s seq=%d) was handled %d times: %v", op.Tag, cellInfo, op.Kind, op.Seq, s.n, s.all)
		}
		// the handler must have seen exactly what was sent, on the right session
		wantArg := world.ArgString(op)
		if s.ev.Arg != wantArg {
			e.Fail("C01/handler-input-differs", "op %s (%s): handler saw %q, sent %q", op.Tag, cellInfo, s.ev.Arg, wantArg)
		}
		wantSess := world.SessKey(c.sb)
		if !op.ToSrv {
			wantSess = world.SessKey(c.sa)
		}
		if s.ev.Sess != wantSess {
			e.Fail("C01/handled-on-wrong-session", "op %s (%s): handled on session %s, sent on %s", op.Tag, cellInfo, s.ev.Sess, wantSess)
		}
		if op.MetaK != "" && !world.MetaHas(s.ev.Meta, op.MetaK, op.MetaV) {
			e.Fail("C01/handler-meta-differs", "op %s (%s): handler meta %q lacks %s=%s", op.Tag, cellInfo, s.ev.Meta, op.MetaK, op.MetaV)
		}
		// exactly the metadata its sender supplied: none of the other keys senders use may show
		for _, k := range world.MetaKeys() {
			if k != op.MetaK && strings.Contains("&"+s.ev.Meta, "&"+k+"=") {
				e.Fail("C01/handler-meta-differs", "op %s (%s): handler meta %q carries %s, which this message was not sent with (it was sent with %q)", op.Tag, cellInfo, s.ev.Meta, k, op.MetaK)
			}
		}
		// further entries (added, overwritten, deleted again by the sender's settings): exactly those that are left,
		// with their values, and no other key of that family
		extra := world.ExpectedExtraMeta(op)
		for _, kv := range extra {
			if !world.MetaHas(s.ev.Meta, kv[0], kv[1]) {
				e.Fail("C01/handler-meta-differs", "op %s (%s): handler meta %q lacks %s=%s (settings %v)", op.Tag, cellInfo, s.ev.Meta, kv[0], kv[1], op.MetaSteps)
			}
		}
		if got := strings.Count("&"+s.ev.Meta, "&Ex-"); got != len(extra) {
			e.Fail("C01/handler-meta-differs", "op %s (%s): handler meta %q carries %d extra entries, the sender left %d (settings %v)", op.Tag, cellInfo, s.ev.Meta, got, len(extra), op.MetaSteps)
		}
		if op.Kind == "push" {
			continue
		}
		if op.Result.Tag != op.Tag || op.Result.Data != world.ExpectData(op) || (op.Route == "echo" && op.Result.N != op.N+1) {
			e.Fail("C01/result-not-own-reply", "op %s (%s): result %q / %q/%q/%d, want tag=%s data=%q n=%d", op.Tag, cellInfo, op.ResultStr, op.Result.Tag, op.Result.Data, op.Result.N, op.Tag, world.ExpectData(op), op.N+1)
		}
		if op.RMeta["Rtag"] != op.Tag || op.RMeta["Mk-Echo"] != op.MetaV {
			e.Fail("C01/reply-meta-not-own", "op %s (%s): reply meta %v, want rtag=%s mk-echo=%s", op.Tag, cellInfo, op.RMeta, op.Tag, op.MetaV)
		}
	}
	// every handler input belongs to a sent message
	for tag := range byTag {
		if e.OpByTag[tag] == nil {
			e.Fail("C01/handler-input-not-sent", "a handler saw tag %q which nobody sent", tag)
		}
	}
}

func sampleOps(ops []*world.Op, n int) string {
	var sb strings.Builder
	for i, op := range ops {
		if i >= n {
			fmt.Fprintf(&sb, "... (%d ops)", len(ops))
			break
		}
		fmt.Fprintf(&sb, "[%s %s/%s conn=%d toSrv=%v codec=%q pipe=%v data=%dB ok=%v code=%d] ", op.Tag, op.Kind, op.Route, op.Conn, op.ToSrv, op.Codec, op.Pipe, len(op.Data), op.OK, op.Code)
	}
	return sb.String()
}
