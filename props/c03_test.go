package props

import (
	"encoding/binary"
	"fmt"
	"math"
	"strconv"
	"strings"
	"testing"
	"time"

	erpc "github.com/henrylee2cn/erpc/v6"

	"simrt"
	"verif/world"
)

// C03 - each received CALL is handled at most once and answered exactly once.
//
// SUT: one real peer with the standard routes (handlers return, fail with a status, panic, are
// slow, produce a result that cannot be encoded or exceeds the size limit), optionally an
// unknown-call/unknown-push handler and a plugin that vetoes at a drawn stage.  Remote: 1-3 scripted
// raw peers that build frames with the real Pack and send CALL / PUSH / unsupported-type frames with
// registered, near-miss or empty routes, decodable or undecodable bodies, known, unknown or zero codec
// ids, in bursts, concurrently.  Oracle (frames the raw peer reads back + handler log): per CALL
// frame at most one handler invocation and, if the session is still up at quiescence, exactly one
// REPLY with its sequence number (at most one if it went down); per PUSH at most one invocation and
// no reply; no reply for a sequence number that was never sent; an unsupported type disconnects.

func init() { register(&Prop{ID: "C03", Run: runC03}) }

type c03Frame struct {
	idx      int
	sess     int
	kind     string // call | push | badtype
	route    string // echo | plain | weird | big | missing | empty | nearmiss | pushnote | pushmissing
	codec    byte
	body     string // ok | undecodable | empty
	seq      int32
	tag      string
	veto     string // stage at which the plugin vetoes this frame ("" none)
	panicRep bool   // a PreWriteReply plugin panics while the reply to this frame is being prepared
	expectH  bool   // a handler may run
	sent     bool
	handlerN int
	replyN   int
}

func runC03(t *testing.T, seed uint64, m *Mask) *Report {
	sc, nc, r := swarm(seed, m)
	opt := world.Options{Seed: seed, Sim: sc, Net: nc}
	opt.ReaderSize = []int{16, 64, 1024}[r.Intn(3)]
	if r.Chance(0.3) {
		opt.Limit = uint32(600 + r.Intn(3000))
	}
	protos := world.StreamProtos()
	proto := protos[r.Intn(len(protos))]
	nSess := 1 + r.Intn(3)
	unknownCall := r.Chance(0.3)
	unknownPush := r.Chance(0.3)
	vetoStages := []string{"PostReadCallHeader", "PreReadCallBody", "PostReadCallBody", "PreWriteReply", "PostReadPushHeader", "PreReadPushBody", "PostReadPushBody"}
	var frames []*c03Frame
	ops := map[string]*world.Op{}
	// context-age phase: some sessions start with a CALL/PUSH context age (replies then carry a deadline and arm
	// the connection's write deadline); after a few frames the age is set back to 0, the fake clock moves past
	// every deadline armed so far, and the remaining frames must still be answered
	ageOf := make([]time.Duration, nSess)
	ageFrames := make([]int, nSess)
	for s := 0; s < nSess; s++ {
		if r.Chance(0.35) {
			ageOf[s] = time.Duration(20+r.Intn(60)) * time.Millisecond
			ageFrames[s] = 1 + r.Intn(3)
		}
	}
	for s := 0; s < nSess; s++ {
		n := 1 + r.Intn(7)
		for j := 0; j < n; j++ {
			f := &c03Frame{idx: len(frames), sess: s, seq: int32(100*(s+1) + j)}
			// sequence numbers are int32 on the wire: negative ones and the extremes are as legal as small ones (a
			// session's counter wraps after 2^31 messages)
			switch k := r.Intn(12); k {
			case 0:
				f.seq = -f.seq
			case 1:
				f.seq = math.MinInt32 + f.seq - 100
			case 2:
				f.seq = math.MaxInt32 - f.seq + 100
			}
			f.tag = fmt.Sprintf("T%x.%d", seed&0xffffff, f.idx)
			op := &world.Op{Idx: f.idx, Tag: f.tag, Data: world.GenString(r, r.Intn(40), "abcdefghijklmnop"), MetaK: "Mk", MetaV: "v"}
			ops[f.tag] = op
			k := r.Intn(20)
			switch {
			case k < 12:
				f.kind = "call"
			case k < 17:
				f.kind = "push"
			default:
				f.kind = "badtype"
			}
			if (proto == "thrift-binary" || proto == "thrift-struct") && f.kind == "badtype" {
				f.kind = "push" // thrift message types cannot express an unsupported type: Pack would send a oneway
			}
			if proto == "http" && f.kind != "call" {
				f.kind = "call" // the http protocol cannot even frame other types
			}
			f.body = []string{"ok", "ok", "ok", "undecodable", "empty"}[r.Intn(5)]
			f.codec = []byte{'j', 'j', 'p', 't', 'f', 'x', 0, 250}[r.Intn(8)]
			if proto == "thrift-struct" {
				f.codec, f.body = 't', "ok"
			}
			if proto == "http" && (f.codec == 't' || f.codec == 250 || f.codec == 0) {
				f.codec = 'j'
			}
			if f.kind == "push" {
				f.route = []string{"pushnote", "pushnote", "pushmissing", "empty"}[r.Intn(4)]
			} else {
				f.route = []string{"echo", "echo", "echo", "weird", "big", "missing", "empty", "nearmiss"}[r.Intn(8)]
			}
			// handler script
			switch r.Intn(8) {
			case 0:
				op.HCode, op.HStatus = int32(1000+r.Intn(50)), [3]string{"", "scripted", "cause"}
			case 1:
				op.HPanic, op.HPanicKind = true, op.Idx%6
			case 2:
				op.HSleep = time.Duration(1+r.Intn(4)) * time.Millisecond
			}
			op.HYield = r.Intn(5)
			op.N = int64(r.Intn(5000))
			if r.Chance(0.15) {
				f.veto = vetoStages[r.Intn(len(vetoStages))]
			}
			f.panicRep = f.kind == "call" && r.Chance(0.08)
			// duplicate sequence numbers now and then
			if j > 0 && r.Chance(0.1) {
				f.seq = frames[len(frames)-1].seq
			}
			frames = append(frames, f)
		}
	}
	rep := &Report{NOps: len(frames)}
	anyAge := false
	for _, a := range ageOf {
		anyAge = anyAge || a > 0
	}
	rep.Cell = fmt.Sprintf("%s,unknownCall=%v,unknownPush=%v,limit=%d,agephase=%v", proto, unknownCall, unknownPush, opt.Limit, anyAge)

	out := world.Run(t, opt, func(e *world.Env) {
		e.AllowUnknownArgs = true
		for tag, op := range ops {
			if !m.opDropped(op.Idx) {
				e.OpByTag[tag] = op
			}
		}
		// the vetoing plugin decides by (session remote addr is unknown to it) sequence number and stage
		vetoBySeq := map[int32]string{}
		for _, f := range frames {
			if f.veto != "" && !m.opDropped(f.idx) {
				vetoBySeq[f.seq] = f.veto
			}
		}
		rec := &world.Recorder{PName: "veto", Env: e, Verdict: func(stage string, mtype byte, method string, seq int32) *erpc.Status {
			if vetoBySeq[seq] == stage {
				return erpc.NewStatus(1400, "vetoed at "+stage, "")
			}
			return nil
		}}
		// a plugin with a bug of its own: it panics while the reply to some calls is prepared - whatever the
		// outcome of the call was (OK, handler status, not found, bad body, veto), the call is still answered once
		panicBySeq := map[int32]bool{}
		for _, f := range frames {
			if f.panicRep && !m.opDropped(f.idx) {
				panicBySeq[f.seq] = true
			}
		}
		// half of the scripted plugin panics happen after the reply has been written (PostWriteReply) instead of
		// before: the call has been answered, nothing more is owed
		postPanic := map[int32]bool{}
		for _, f := range frames {
			if panicBySeq[f.seq] && e.Gen.Chance(0.5) {
				postPanic[f.seq] = true
				delete(panicBySeq, f.seq)
			}
		}
		srv := e.NewPeer("srv", erpc.PeerConfig{}, rec, &c03Panicker{seqs: panicBySeq, post: postPanic})
		rt := e.RegisterStd(srv)
		weird, big := "/std/weird", "/std/big"
		unknownN := 0
		if unknownCall {
			srv.SetUnknownCall(func(c erpc.UnknownCallCtx) (interface{}, *erpc.Status) {
				simrt.Yield()
				unknownN++
				e.Obs.RecordHandler(world.HandlerEvent{Peer: "srv", Sess: world.SessKey(c.Session()), Seq: c.Seq(), Kind: "unknown_call", Method: c.ServiceMethod()})
				return []byte("unknown-ok"), nil
			})
		}
		if unknownPush {
			srv.SetUnknownPush(func(c erpc.UnknownPushCtx) *erpc.Status {
				simrt.Yield()
				e.Obs.RecordHandler(world.HandlerEvent{Peer: "srv", Sess: world.SessKey(c.Session()), Seq: c.Seq(), Kind: "unknown_push", Method: c.ServiceMethod()})
				return nil
			})
		}
		pf := world.ProtoFunc(proto)
		type rawSess struct {
			raw     *world.RawPeer
			replies map[int32]int
			other   int
			readEnd bool
			readErr error
			sess    erpc.Session
			key     string
		}
		rs := make([]*rawSess, nSess)
		writers := 0
		for s := 0; s < nSess; s++ {
			ca, cb := e.Net.Pair()
			x := &rawSess{raw: world.NewRawPeer(ca, pf), replies: map[int32]int{}}
			rs[s] = x
			var st *erpc.Status
			x.sess, st = srv.ServeConn(cb, pf)
			if !st.OK() {
				e.Fail("infra-session-setup", "ServeConn: %v", st)
				return
			}
			x.key = world.SessKey(x.sess)
			if e.Gen.Chance(0.15) {
				// one of the server's writes on this connection fails after a few bytes: that call may go
				// unanswered (the connection is gone), but nothing may be answered twice
				cb.FailWrite(e.Gen.Intn(6), e.Gen.Intn(9))
			}
			age, ageN := ageOf[s], ageFrames[s]
			if age > 0 {
				x.sess.(interface{ SetContextAge(time.Duration) }).SetContextAge(age)
			}
			simrt.GoNamed(fmt.Sprintf("rawreader%d", s), func() {
				for {
					var msg world.RawMsg
					if proto == "thrift-struct" {
						msg, _ = x.raw.ReadPayload() // this protocol decodes the struct while framing
					} else {
						msg = x.raw.Read()
					}
					if msg.Err != nil {
						x.readEnd = true
						x.readErr = msg.Err
						return
					}
					simrt.Yield()
					if msg.Mtype == erpc.TypeReply {
						x.replies[msg.Seq]++
					} else {
						x.other++
					}
				}
			})
			var mine []*c03Frame
			for _, f := range frames {
				if f.sess == s && !m.opDropped(f.idx) {
					mine = append(mine, f)
				}
			}
			writers++
			simrt.GoNamed(fmt.Sprintf("rawwriter%d", s), func() {
				defer func() { writers-- }()
				for fi, f := range mine {
					simrt.YieldN(e.Gen.Intn(4))
					if age > 0 && fi == ageN {
						// let the frames sent so far be answered, then end the phase and let every armed deadline pass
						simrt.Sleep(age / 2)
						x.sess.(interface{ SetContextAge(time.Duration) }).SetContextAge(0)
						simrt.Sleep(age + time.Duration(e.Gen.Intn(20))*time.Millisecond)
						e.Probe("c03-frames-after-context-age-phase")
					}
					method := ""
					switch f.route {
					case "echo":
						method = rt.Echo
					case "plain":
						method = rt.Plain
					case "weird":
						method = weird
					case "big":
						method = big
					case "missing":
						method = "/no/such/route"
					case "nearmiss":
						method = rt.Echo + "x"
					case "pushnote":
						method = rt.Note
					case "pushmissing":
						method = "/no/such/push"
					}
					op := ops[f.tag]
					var body interface{}
					p := &world.Payload{Tag: f.tag, Data: op.Data, N: op.N}
					switch f.body {
					case "ok":
						if proto == "thrift-struct" {
							body = p
						} else if f.codec == 0 || f.codec == 250 {
							body = []byte("opaque " + f.tag)
						} else {
							body = world.Encode(f.codec, p)
						}
					case "undecodable":
						body = []byte("\x00\xff\xfe{{" + f.tag)
					case "empty":
						body = nil
					}
					mtype := erpc.TypeCall
					switch f.kind {
					case "push":
						mtype = erpc.TypePush
					case "badtype":
						mtype = byte(6 + e.Gen.Intn(200))
					}
					if bb, isBytes := body.([]byte); proto == "raw" && (isBytes || body == nil) && len(method) < 256 && e.Gen.Chance(0.5) {
						// a client that is not teleport: the frame is laid out by hand from the documented format of the
						// raw protocol, independently of teleport's own Pack
						if _, err := x.raw.Conn.Write(c03RawFrame(mtype, f.seq, method, f.codec, bb, "Mk=v")); err == nil {
							f.sent = true
						}
						e.Probe("c03-hand-made-raw-frames")
						continue
					}
					if err := x.raw.Send(mtype, f.seq, method, f.codec, body, nil, [][2]string{{"Mk", "v"}}, nil); err == nil {
						f.sent = true
					}
				}
			})
		}
		simrt.WaitQuiescent()
		e.CheckSettled("C03/task-stuck-at-quiescence:" + proto)
		// ---- oracle ----
		// handler invocations by (session, seq)
		type key struct {
			sess string
			seq  int32
		}
		hcount := map[key]int{}
		for _, ev := range e.Obs.Handlers {
			if !ev.Exit {
				hcount[key{ev.Sess, ev.Seq}]++
			}
		}
		for s, x := range rs {
			up := x.sess.Health() && !x.readEnd
			sentCalls := map[int32]int{}
			sentAny := map[int32]int{}
			badtype := false
			for _, f := range frames {
				if f.sess != s || !f.sent {
					continue
				}
				sentAny[f.seq]++
				switch f.kind {
				case "call":
					sentCalls[f.seq]++
				case "badtype":
					badtype = true
				}
			}
			info := fmt.Sprintf("proto=%s sess=%d up=%v", proto, s, up)
			// the reading side of this connection gave up although the server's session is alive and well: the
			// server wrote a frame that its own wire protocol cannot unpack (the caller of that CALL never gets a
			// REPLY carrying its sequence number)
			if x.sess.Health() && x.readErr != nil {
				if es := x.readErr.Error(); !strings.Contains(es, "EOF") && !strings.Contains(es, "closed") && !strings.Contains(es, "reset") && !strings.Contains(es, "exceeds") {
					// ("exceeds ...": the reading end of the harness lives in the same process and shares the process-wide
					// size limit of the run - an oversize reply it refuses to read is not the server's fault)
					e.Fail("C03/reply-frame-unreadable:"+proto, "%s: the server's session is healthy but a frame it wrote could not be unpacked by the same protocol: %v", info, x.readErr)
				}
			}
			for seq, n := range sentAny {
				if h := hcount[key{x.key, seq}]; h > n {
					e.Fail("C03/handled-more-than-once", "%s: %d frame(s) with seq %d but %d handler invocations", info, n, seq, h)
				}
			}
			for seq, n := range x.replies {
				if sentCalls[seq] == 0 {
					e.Fail("C03/reply-without-call", "%s: %d REPLY frame(s) with seq %d although no CALL with that seq was sent", info, n, seq)
				} else if n > sentCalls[seq] {
					e.Fail("C03/answered-twice", "%s: %d CALL frame(s) with seq %d got %d REPLY frames", info, sentCalls[seq], seq, n)
				}
			}
			if up {
				for seq, n := range sentCalls {
					if x.replies[seq] < n {
						var desc string
						for _, f := range frames {
							if f.sess == s && f.seq == seq && f.kind == "call" {
								desc += fmt.Sprintf("[route=%s codec=%d body=%s veto=%s]", f.route, f.codec, f.body, f.veto)
							}
						}
						e.Fail("C03/call-silently-dropped:"+proto, "%s: %d CALL frame(s) with seq %d %s got %d REPLY frames on a connection that stayed up", info, n, seq, desc, x.replies[seq])
					}
				}
			}
			if badtype && up {
				e.Fail("C03/unsupported-type-not-disconnected", "%s: a frame of an unsupported type was sent but the session is still up", info)
			}
			if x.other > 0 {
				e.Fail("C03/server-sent-unexpected-frame", "%s: server sent %d frames that are not replies", info, x.other)
			}
		}
		// a vetoed or unroutable CALL must not reach a registered handler
		for _, f := range frames {
			if !f.sent || f.kind != "call" {
				continue
			}
			preHandler := f.veto == "PostReadCallHeader" || f.veto == "PreReadCallBody" || f.veto == "PostReadCallBody"
			if (preHandler || f.route == "missing" || f.route == "nearmiss" || f.route == "empty") && !(unknownCall && !preHandler) {
				// count only registered-handler events (kind "call") for this (session, seq) when the seq is unique
				dup := 0
				for _, g := range frames {
					if g.sess == f.sess && g.seq == f.seq {
						dup++
					}
				}
				if dup == 1 {
					for _, ev := range e.Obs.Handlers {
						if !ev.Exit && ev.Kind == "call" && ev.Sess == rs[f.sess].key && ev.Seq == f.seq {
							e.Fail("C03/handler-ran-for-unroutable-or-vetoed-call", "proto=%s route=%s veto=%s seq=%d: a registered handler ran", proto, f.route, f.veto, f.seq)
						}
					}
				}
			}
		}
		_ = unknownN
		for _, x := range rs {
			x.raw.Conn.Close()
		}
		e.CloseAll()
	})
	rep.Sample = fmt.Sprintf("%d frames on %d raw sessions, first: %+v", len(frames), nSess, *frames[0])
	return finish(rep, out)
}

// c03Panicker is a PreWriteReply plugin that panics for the replies of selected sequence numbers.
type c03Panicker struct{ seqs, post map[int32]bool }

func (p *c03Panicker) PostWriteReply(c erpc.WriteCtx) *erpc.Status {
	if p.post[c.Output().Seq()] {
		delete(p.post, c.Output().Seq())
		var m map[string]int
		m["audit"]++ // write to a nil map, as an accounting plugin that forgot to initialise it
	}
	return nil
}

func (p *c03Panicker) Name() string { return "panicker" }
func (p *c03Panicker) PreWriteReply(c erpc.WriteCtx) *erpc.Status {
	if p.seqs[c.Output().Seq()] {
		delete(p.seqs, c.Output().Seq()) // once: the recovery path writes a reply of its own
		var body *string
		_ = *body
	}
	return nil
}

// c03RawFrame lays out a frame of the default (raw) protocol by hand, from the format documented in
// socket/protocol.go (as its Unpack reads it): {4 bytes length, itself included}{1 byte filter count}{filters}
// {1 byte sequence length}{sequence: base-36 text of an int32}{1 byte type}{1 byte method length}{method}
// {2 bytes status length}{status}{2 bytes metadata length}{metadata}{1 byte body codec}{body}.
func c03RawFrame(mtype byte, seq int32, method string, codec byte, body []byte, meta string) []byte {
	sq := strconv.FormatInt(int64(seq), 36)
	f := []byte{0, 0, 0, 0, 0, byte(len(sq))}
	f = append(f, sq...)
	f = append(f, mtype, byte(len(method)))
	f = append(f, method...)
	f = append(f, 0, 0) // no status
	f = append(f, byte(len(meta)>>8), byte(len(meta)))
	f = append(f, meta...)
	f = append(f, codec)
	f = append(f, body...)
	binary.BigEndian.PutUint32(f, uint32(len(f)))
	return f
}
