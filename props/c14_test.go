package props

import (
	"fmt"
	"sync/atomic"
	"testing"
	"time"

	erpc "github.com/henrylee2cn/erpc/v6"

	"simrt"
	"verif/world"
)

// C14 - documented concurrent use of sessions and peers is free of data races.
//
// The binary is built with -race.  The simulator serialises every task, but its token hand-off is hidden
// from the race detector (runtime.RaceDisable around the hand-off, //go:norace bookkeeping), while the
// sim-aware Mutex/RWMutex/WaitGroup/Pool/Map publish exactly the happens-before edges the real primitives
// would and atomics stay real.  So two accesses that teleport does not order are reported whenever both
// occur in a run - independent of timing - which makes race reports a function of the seed.
// Workload: 2 peers, 1-3 sessions, many tasks using the operations documented as concurrency-safe at once:
// Call, AsyncCall, Push in both directions, handlers replying, SetID, Swap store/load/range, context and
// session age setters and getters, Health/ID/CloseNotify, GetSession/RangeSession/CountSession, CostTime of
// completed calls, then session Close and peer Close while traffic is still flowing, and (separately) a cut.
// Oracle: the race detector; a report counts if both accesses are owned by teleport code.

func init() { register(&Prop{ID: "C14", Run: runC14, ExtOracle: true}) }

func runC14(t *testing.T, seed uint64, m *Mask) *Report {
	sc, nc, r := swarm(seed, m)
	sc.MaxSteps = 30000
	opt := world.Options{Seed: seed, Sim: sc, Net: nc}
	proto := []string{"raw", "raw", "json", "pb", "thrift-binary", "thrift-struct", "http"}[r.Intn(7)]
	nSess := 1 + r.Intn(3)
	ending := []string{"close_session", "close_peer", "cut", "none"}[r.Intn(4)]
	countTime := r.Chance(0.5)
	var ops []*world.Op
	for s := 0; s < nSess; s++ {
		for side := 0; side < 2; side++ {
			for k := 0; k < 1+r.Intn(2); k++ {
				for j := 0; j < 1+r.Intn(4); j++ {
					op := world.GenOp(r, len(ops), seed, proto)
					if len(op.Data) > 100 {
						op.Data = op.Data[:100]
					}
					if proto == "http" && side == 1 {
						continue
					}
					op.Conn, op.ToSrv, op.Caller = s, side == 0, k
					op.HYield = r.Intn(4)
					ops = append(ops, op)
				}
			}
		}
	}
	nMisc := 2 + r.Intn(4)
	endYield := r.Intn(120)
	rep := &Report{NOps: len(ops)}
	rep.Cell = fmt.Sprintf("%s,end=%s,counttime=%v", proto, ending, countTime)

	out := world.Run(t, opt, func(e *world.Env) {
		e.AllowUnknownArgs = true
		for _, op := range ops {
			if !m.opDropped(op.Idx) {
				e.OpByTag[op.Tag] = op
			} else {
				op.Dropped = true
			}
		}
		pf := world.ProtoFunc(proto)
		// the first session may be a dialled one with a redial budget: a cut then makes the session reconnect
		// (socket reset, re-indexing) while the other tasks keep using it
		redial := e.Gen.Chance(0.35) && proto != "http"
		acfg := erpc.PeerConfig{CountTime: countTime}
		if redial {
			acfg.RedialTimes, acfg.RedialInterval = 2, 2*time.Millisecond
		}
		// a dial hook may name the session (PreSession.SetID), which lists it in the peer's index while Dial is
		// still setting it up
		nameInHook := redial && e.Gen.Chance(0.5)
		A := e.NewPeer("A", acfg, &c07Namer{on: func() bool { return nameInHook }})
		// the server may refuse the very first connection in its accept hook: the dialled session loses its
		// connection at the moment Dial returns, and its reader starts the redial at once
		refuseFirst := redial && e.Gen.Chance(0.4)
		B := e.NewPeer("B", erpc.PeerConfig{CountTime: countTime}, &c14Refuser{on: func() bool { r := refuseFirst; refuseFirst = false; return r }})
		rtA, rtB := e.RegisterStd(A), e.RegisterStd(B)
		type sp struct{ a, b erpc.Session }
		var ss []sp
		for i := 0; i < nSess; i++ {
			if i == 0 && redial {
				e.Serve(B, "10.9.0.1:9000", pf)
				// another goroutine looks at the peer's sessions while the dial is in progress: a session it can find
				// there is one it may use
				watching := &world.Cnt{}
				watching.Inc()
				simrt.GoNamed("misc", func() {
					for k := 0; k < 60 && watching.Get() > 0; k++ {
						A.RangeSession(func(s erpc.Session) bool { s.Health(); s.ID(); return true })
						simrt.Yield()
					}
				})
				sa, st := A.Dial("10.9.0.1:9000", pf)
				watching.Dec()
				if !st.OK() {
					e.Fail("infra-dial-failed", "dial: %v", st)
					return
				}
				e.Until(func() bool {
					s := e.FindSession(B, sa.LocalAddr().String())
					return s != nil && s.Health() && sa.Health()
				})
				ss = append(ss, sp{sa, e.FindSession(B, sa.LocalAddr().String())})
				continue
			}
			sa, sb, _, _ := e.ServePair(A, B, pf, pf)
			ss = append(ss, sp{sa, sb})
		}
		running := &world.Cnt{}
		byCaller := map[string][]*world.Op{}
		for _, op := range ops {
			if !op.Dropped {
				k := fmt.Sprintf("%d.%v.%d", op.Conn, op.ToSrv, op.Caller)
				byCaller[k] = append(byCaller[k], op)
			}
		}
		var keys []string
		for k := range byCaller {
			keys = append(keys, k)
		}
		sortStrings(keys)
		for _, k := range keys {
			mine := byCaller[k]
			sess, rt := ss[mine[0].Conn].a, rtB
			if !mine[0].ToSrv {
				sess, rt = ss[mine[0].Conn].b, rtA
			}
			running.Inc()
			simrt.GoNamed("caller", func() {
				defer running.Dec()
				for _, op := range mine {
					if op.Kind == "async" {
						cmd := sess.AsyncCall(rtEcho(rt, op), &world.Payload{Tag: op.Tag, Data: op.Data}, new(world.Payload), make(chan erpc.CallCmd, 1), erpc.WithBodyCodec(codecFor(proto)))
						simrt.WaitClosed(cmd.Done())
						cmd.CostTime()
						cmd.Status()
						cmd.InputMeta()
					} else {
						e.Issue(sess, rt, op, nil)
					}
				}
			})
		}
		// miscellaneous concurrent users of the documented-safe API
		for i := 0; i < nMisc; i++ {
			i := i
			s := ss[i%len(ss)]
			running.Inc()
			simrt.GoNamed("misc", func() {
				defer running.Dec()
				g := e.Gen
				for j := 0; j < 6; j++ {
					sess := s.a
					if g.Chance(0.5) {
						sess = s.b
					}
					switch g.Intn(9) {
					case 0:
						sess.SetID(fmt.Sprintf("id-%d-%d", i, j))
					case 1:
						sess.Swap().Store(fmt.Sprintf("k%d", j), j)
					case 2:
						sess.Swap().Range(func(k, v interface{}) bool { return true })
						sess.Swap().Len()
					case 3:
						sess.Health()
						sess.ID()
						sess.ContextAge()
						sess.SessionAge()
					case 4:
						p := sess.Peer()
						p.CountSession()
						p.RangeSession(func(x erpc.Session) bool { x.ID(); x.Health(); return true })
						p.GetSession(sess.ID())
					case 5:
						if ps, ok := sess.(interface{ SetContextAge(time.Duration) }); ok {
							ps.SetContextAge(time.Duration(g.Intn(3)) * time.Second)
						}
					case 6:
						select {
						case <-sess.CloseNotify():
						default:
						}
						sess.RemoteAddr()
						sess.LocalAddr()
					case 7:
						sess.Push(rtA.Note, &world.Payload{Tag: "misc"}, erpc.WithBodyCodec(codecFor(proto)))
					case 8:
						simrt.YieldN(3)
					}
				}
			})
		}
		// plain HTTP clients of the http protocol: well-formed requests whose Content-Type is spelt in ways this
		// process has not seen before (parameters after a known media type), on two connections at once
		if proto == "http" {
			for i := 0; i < 2; i++ {
				i := i
				ra, rb := e.Net.Pair()
				if _, st := B.ServeConn(rb, pf); !st.OK() {
					continue
				}
				running.Inc()
				simrt.GoNamed("misc", func() {
					defer running.Dec()
					for j := 0; j < 3; j++ {
						body := fmt.Sprintf("plain-http-%d-%d", i, j)
						req := fmt.Sprintf("POST %s HTTP/1.1\r\nContent-Type: application/json; charset=utf-8; n=%08x\r\nContent-Length: %d\r\nX-Seq: %d\r\nX-Mtype: 1\r\n\r\n%s", rtB.Blank, c14Spelling.Add(1), len(body), j+1, body)
						ra.Write([]byte(req))
						simrt.YieldN(1 + e.Gen.Intn(4))
					}
				})
			}
			e.Probe("c14-plain-http-clients")
		}
		simrt.GoNamed("ender", func() {
			simrt.YieldN(endYield)
			switch ending {
			case "close_session":
				ss[0].a.Close()
			case "close_peer":
				B.Close()
			case "cut":
				if len(e.Net.Conns) > 0 {
					e.Net.Conns[0].CutNow()
				}
			}
		})
		simrt.WaitCond(func() bool { return running.Get() == 0 })
		simrt.WaitQuiescent()
		e.CloseAll()

	})
	rep.Sample = rep.Cell + " " + sampleOps(ops, 2)
	fin := finish(rep, out)
	fails, harness := collectRaces()
	if fin.Probes == nil {
		fin.Probes = map[string]int{}
	}
	fin.Probes["race-reports-involving-harness-dropped"] += harness
	if !fin.Inconclusive {
		// only the race detector judges here: functional failures under faults belong to other properties
		fin.Failures, fin.Classes = nil, nil
	}
	for _, f := range fails {
		fin.Failures = append(fin.Failures, f)
		fin.Classes = append(fin.Classes, f[:indexOf(f, ": ")])
	}
	return fin
}

// c14Spelling numbers the Content-Type spellings of the plain HTTP clients across the whole process (fixed
// width, so that every run sends the same number of bytes): whatever a protocol remembers about spellings it has
// seen, the warm-up run or an earlier run of the same seed has not seen these.
var c14Spelling atomic.Uint32

func indexOf(s, sub string) int {
	for i := 0; i+len(sub) <= len(s); i++ {
		if s[i:i+len(sub)] == sub {
			return i
		}
	}
	return len(s)
}

func codecFor(proto string) byte {
	if proto == "thrift-struct" {
		return 't'
	}
	return 'j'
}

// rtEcho picks one of the three registered forms of the echo handler (controller method, function, method expression).
func rtEcho(rt world.Routes, op *world.Op) string {
	switch {
	case op.Idx%3 == 1 && rt.EchoFn != "":
		return rt.EchoFn
	case op.Idx%3 == 2 && rt.EchoMx != "":
		return rt.EchoMx
	}
	return rt.Echo
}

// c14Refuser is a PostAccept plugin that refuses a connection when told to.
type c14Refuser struct{ on func() bool }

func (c *c14Refuser) Name() string { return "c14-refuser" }
func (c *c14Refuser) PostAccept(erpc.PreSession) *erpc.Status {
	if c.on() {
		return erpc.NewStatus(1499, "refused by the accept hook", "")
	}
	return nil
}
