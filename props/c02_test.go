package props

import (
	"encoding/binary"
	"fmt"
	"testing"
	"time"

	erpc "github.com/henrylee2cn/erpc/v6"

	"simrt"
	"verif/simnet"
	"verif/world"
)

// C02 - every call completes exactly once; none hangs, none completes twice.
//
// Sub-batch A: client and server are real peers; a fault (cut at a byte offset of the request
// or reply stream, half close, local Close, remote Close, peer Close, cut now) is placed by the
// seed and races with reply arrival under the scheduler.
// Sub-batch B: the remote end is a scripted raw peer that answers with well-formed, duplicated,
// mis-numbered, undecodable, unknown-codec, codec-0-with-body, wrong-type or truncated replies.
// Oracle at quiescence (faults over, nothing can run): every issued call completed exactly once
// (Done closed once - a second close panics - and one delivery to its completion channel),
// no task is parked for good, and an OK status carries exactly the call's own reply.

func init() { register(&Prop{ID: "C02", Run: runC02}) }

var c02Faults = []string{"none", "cut_reply_at", "cut_request_at", "half_close", "local_close", "remote_close", "remote_peer_close", "local_peer_close", "cut_now", "write_err"}

var c02Hostile = []string{"ok", "ok", "dup_reply", "wrong_seq", "undecodable", "unknown_codec", "codec0_body", "bad_mtype", "truncated", "garbage", "silent_close", "err_status", "reply_twice_then_ok", "short_frame", "bad_status_body"}

func runC02(t *testing.T, seed uint64, m *Mask) *Report {
	sc, nc, r := swarm(seed, m)
	opt := world.Options{Seed: seed, Sim: sc, Net: nc}
	opt.ReaderSize = []int{16, 64, 1024}[r.Intn(3)]
	protos := world.StreamProtos()
	proto := protos[r.Intn(len(protos))]
	hostile := r.Chance(0.4)
	dial := !hostile && r.Chance(0.5)
	nCallers := 1 + r.Intn(3)
	var ops []*world.Op
	for k := 0; k < nCallers; k++ {
		n := 1 + r.Intn(4)
		for j := 0; j < n; j++ {
			op := world.GenOp(r, len(ops), seed, proto)
			if op.Kind == "push" {
				op.Kind = "async"
				if op.Route == "note" {
					op.Route = "echo"
				} else {
					op.Route = "plain"
				}
			}
			if len(op.Data) > 60 {
				op.Data = op.Data[:60]
			}
			if hostile {
				op.Route, op.Pipe = "echo", nil
				if op.Codec == 's' {
					op.Codec = 'j'
				}
				if proto == "thrift-struct" {
					op.Codec = 't'
				}
			}
			op.Caller = k
			op.ToSrv = true
			op.HYield = r.Intn(8)
			if r.Chance(0.2) {
				op.HSleep = time.Duration(1+r.Intn(5)) * time.Millisecond
			}
			ops = append(ops, op)
		}
	}
	// a message size limit, and one request above it: the call cannot be written and must still complete
	if !hostile && r.Chance(0.2) {
		opt.Limit = uint32(400 + r.Intn(1500))
		if len(ops) > 0 && r.Chance(0.7) {
			ops[r.Intn(len(ops))].Data = world.GenString(r, int(opt.Limit)+r.Intn(600), "abcdefghij")
		}
	}
	// a maximum session age on one side (set in a connection hook, as documented): a read deadline on the
	// simulated clock that runs out while calls are in flight - the reader gives up on an intact connection
	ageSide, ageD := "", time.Duration(0)
	if r.Chance(0.15) {
		ageSide = []string{"cli", "srv"}[r.Intn(2)]
		if hostile {
			ageSide = "cli"
		}
		ageD = time.Duration(10+r.Intn(240)) * time.Millisecond
		for _, op := range ops {
			if r.Chance(0.6) {
				op.HSleep = time.Duration(r.Intn(90)) * time.Millisecond
			}
		}
	}
	shared := r.Chance(0.5)
	fault := c02Faults[r.Intn(len(c02Faults))]
	if hostile {
		fault = "none"
	}
	faultOff := int64(r.Intn(40 + 120*len(ops)))
	faultYield := r.Intn(60 * len(ops))
	behav := make([]string, len(ops))
	for i := range behav {
		behav[i] = c02Hostile[r.Intn(len(c02Hostile))]
	}
	nFaults := 1
	if fault == "none" {
		nFaults = 0
	}
	if m.faultDropped(0) {
		fault = "none"
	}
	rep := &Report{NOps: len(ops), NFaults: nFaults}
	rep.Cell = fmt.Sprintf("%s,hostile=%v,fault=%s,dial=%v,limit=%d,age=%s", proto, hostile, fault, dial, opt.Limit, ageSide)

	out := world.Run(t, opt, func(e *world.Env) {
		for _, op := range ops {
			if m.opDropped(op.Idx) {
				op.Dropped = true
			} else {
				e.OpByTag[op.Tag] = op
			}
		}
		pf := world.ProtoFunc(proto)
		// the caller may be slow before and after its frame is written (a slow plugin): reply arrival, close and
		// loss can then land while a call is still being launched
		ageCli, ageSrv := &world.AgeHook{Sticky: true}, &world.AgeHook{Sticky: true}
		switch ageSide {
		case "cli":
			ageCli.Next = ageD
		case "srv":
			ageSrv.Next = ageD
		}
		cli := e.NewPeer("cli", erpc.PeerConfig{}, ageCli, &world.Slow{Env: e, P: []float64{0, 0, 0.3, 0.8}[e.Gen.Intn(4)], PostLaunch: true, PreLaunch: true})
		var srv erpc.Peer
		var rt world.Routes
		var sa, sb erpc.Session
		var ca, cb *simnet.Conn
		if hostile {
			rt = world.Routes{Echo: "/std/echo", Plain: "/std/plain", Bytes: "/std/bytes"}
			ca, cb = e.Net.Pair()
			raw := world.NewRawPeer(cb, pf)
			simrt.GoNamed("rawpeer", func() { c02RawPeer(e, raw, proto, ops, behav) })
			var st *erpc.Status
			sa, st = cli.ServeConn(ca, pf)
			if !st.OK() {
				e.Fail("infra-session-setup", "ServeConn: %v", st)
				return
			}
		} else {
			srv = e.NewPeer("srv", erpc.PeerConfig{}, ageSrv)
			rt = e.RegisterStd(srv)
			if dial {
				e.Serve(srv, "10.9.0.1:9000", pf)
				var st *erpc.Status
				sa, st = cli.Dial("10.9.0.1:9000", pf)
				if !st.OK() {
					e.Fail("infra-dial-failed", "dial: %v", st)
					return
				}
				want := sa.LocalAddr().String()
				e.Until(func() bool { s := e.FindSession(srv, want); return s != nil && s.Health() })
				sb = e.FindSession(srv, want)
				ca = e.Net.Conns[len(e.Net.Conns)-1]
				cb = ca.Peer
			} else {
				sa, sb, ca, cb = e.ServePair(cli, srv, pf, pf)
			}
		}
		// byte-offset faults are armed before traffic starts
		switch fault {
		case "cut_reply_at":
			ca.CutInboundAt(faultOff)
		case "cut_request_at":
			cb.CutInboundAt(faultOff)
		case "write_err":
			ca.FailWrite(int(faultOff)%(2*len(ops)+1), int(faultOff)%7)
		}
		var ch chan erpc.CallCmd
		if shared {
			ch = make(chan erpc.CallCmd, len(ops)+2)
		}
		running := 0
		for k := 0; k < nCallers; k++ {
			var mine []*world.Op
			for _, op := range ops {
				if op.Caller == k && !op.Dropped {
					mine = append(mine, op)
				}
			}
			if len(mine) == 0 {
				continue
			}
			running++
			simrt.GoNamed(fmt.Sprintf("caller%d", k), func() {
				defer func() { running-- }()
				for _, op := range mine {
					e.Issue(sa, rt, op, ch)
				}
			})
		}
		// schedule-placed faults
		switch fault {
		case "half_close", "local_close", "remote_close", "remote_peer_close", "local_peer_close", "cut_now":
			simrt.GoNamed("fault", func() {
				simrt.YieldN(faultYield)
				switch fault {
				case "half_close":
					ca.HalfClose()
				case "cut_now":
					ca.CutNow()
				case "local_close":
					e.Net.Fault("local_close")
					sa.Close()
				case "remote_close":
					e.Net.Fault("remote_close")
					sb.Close()
				case "remote_peer_close":
					e.Net.Fault("remote_peer_close")
					srv.Close()
				case "local_peer_close":
					e.Net.Fault("local_peer_close")
					cli.Close()
				}
			})
		}
		simrt.WaitQuiescent()
		// ---- oracle ----
		e.CheckSettled("C02/task-stuck-at-quiescence:" + proto)
		if running != 0 {
			e.Fail("C02/caller-hangs:"+proto, "%d caller task(s) still waiting for a call to complete at quiescence (fault=%s hostile=%v)", running, fault, hostile)
		}
		delivered := map[string]int{}
		if shared {
			for {
				select {
				case cmd := <-ch:
					delivered[fmt.Sprintf("%p", cmd)]++
					continue
				default:
				}
				break
			}
			for k, n := range delivered {
				if n > 1 {
					e.Fail("C02/completion-delivered-twice", "command %s was delivered %d times to the shared completion channel", k, n)
				}
			}
		}
		nDone, nAsyncDone := 0, 0
		for i, op := range ops {
			if op.Dropped || !op.Issued {
				continue
			}
			info := fmt.Sprintf("proto=%s codec=%q fault=%s hostile=%v", proto, op.Codec, fault, hostile)
			if hostile {
				info += " reply=" + behav[i]
			}
			if !op.Done {
				e.Fail("C02/call-never-completes:"+proto, "op %s (%s) issued but not complete at quiescence", op.Tag, info)
				continue
			}
			nDone++
			if op.Kind == "async" {
				nAsyncDone++
			}
			if op.OK && !(hostile && behav[i] != "ok") {
				if op.Result.Tag != op.Tag || op.Result.Data != world.ExpectData(op) {
					e.Fail("C02/ok-without-own-reply", "op %s (%s): OK but result %q", op.Tag, info, op.ResultStr)
				}
			}
		}
		if shared && len(delivered) != nAsyncDone {
			e.Fail("C02/completion-channel-count", "%d async calls completed but %d commands were delivered to the shared channel", nAsyncDone, len(delivered))
		}
		if sa != nil && !sa.Health() {
			if n := erpc.VerifPendingCalls(sa); n != 0 {
				e.Fail("C02/pending-calls-on-dead-session", "session is down but still holds %d pending calls", n)
			}
		}
		if ageCli.Marked+ageSrv.Marked > 0 {
			e.Net.Fault("session_age")
			if sa != nil && !sa.Health() {
				e.Probe("session-ended-by-age-or-fault")
			}
		}
		if fault != "none" && e.Net.St.Faults != nil {
			e.Probe("fault-armed:" + fault)
		}
		e.CloseAll()
	})
	rep.Sample = sampleOps(ops, 4)
	return finish(rep, out)
}

// c02RawPeer answers the calls it reads according to the per-op script.
func c02RawPeer(e *world.Env, raw *world.RawPeer, proto string, ops []*world.Op, behav []string) {
	for {
		msg, p := raw.ReadPayload()
		if msg.Err != nil {
			return
		}
		simrt.Yield()
		op := e.OpByTag[p.Tag]
		if op == nil {
			// cannot attribute: answer OK-empty so the caller is not left waiting because of the harness
			raw.Send(erpc.TypeReply, msg.Seq, "", msg.Codec, &world.Payload{}, nil, nil, nil)
			continue
		}
		good := &world.Payload{Tag: p.Tag, Data: world.Transform(p.Data) + "|" + op.MetaV, N: p.N + 1}
		meta := [][2]string{{"Rtag", p.Tag}, {"Mk-Echo", op.MetaV}}
		b := behav[op.Idx]
		e.Probe("hostile:" + b)
		switch b {
		case "ok":
			raw.Send(erpc.TypeReply, msg.Seq, "", msg.Codec, good, nil, meta, nil)
		case "dup_reply":
			raw.Send(erpc.TypeReply, msg.Seq, "", msg.Codec, good, nil, meta, nil)
			raw.Send(erpc.TypeReply, msg.Seq, "", msg.Codec, good, nil, meta, nil)
		case "reply_twice_then_ok":
			raw.Send(erpc.TypeReply, msg.Seq, "", msg.Codec, good, erpc.NewStatus(777, "first", "x"), meta, nil)
			raw.Send(erpc.TypeReply, msg.Seq, "", msg.Codec, good, nil, meta, nil)
		case "wrong_seq":
			raw.Send(erpc.TypeReply, msg.Seq+1000, "", msg.Codec, good, nil, meta, nil)
			raw.Send(erpc.TypeReply, msg.Seq, "", msg.Codec, good, nil, meta, nil)
		case "undecodable":
			if proto == "thrift-struct" {
				raw.Send(erpc.TypeReply, msg.Seq, "", msg.Codec, good, nil, meta, nil)
			} else {
				junk := []byte("\x01\xff{not-a-" + p.Tag)
				raw.Send(erpc.TypeReply, msg.Seq, "", msg.Codec, junk, nil, meta, nil)
			}
		case "unknown_codec":
			if proto == "thrift-struct" || proto == "http" {
				raw.Send(erpc.TypeReply, msg.Seq, "", msg.Codec, good, nil, meta, nil)
			} else {
				raw.Send(erpc.TypeReply, msg.Seq, "", 250, []byte("zzz"+p.Tag), nil, meta, nil)
			}
		case "codec0_body":
			if proto == "thrift-struct" {
				raw.Send(erpc.TypeReply, msg.Seq, "", msg.Codec, good, nil, meta, nil)
			} else {
				raw.Send(erpc.TypeReply, msg.Seq, "", 0, []byte("raw-bytes-without-codec"), nil, meta, nil)
			}
		case "bad_mtype":
			raw.Send(9, msg.Seq, "", msg.Codec, good, nil, meta, nil)
			raw.Send(erpc.TypeReply, msg.Seq, "", msg.Codec, good, nil, meta, nil)
		case "err_status":
			var body interface{}
			c := byte(0)
			if proto == "thrift-struct" {
				body, c = good, msg.Codec // this protocol cannot pack a frame without a struct body
			}
			if err := raw.Send(erpc.TypeReply, msg.Seq, "", c, body, erpc.NewStatus(int32(400+e.Gen.Intn(200)), "scripted", "cause "+p.Tag), nil, nil); err != nil {
				raw.Conn.Close()
				return
			}
		case "truncated":
			// a valid frame cut short, then the connection closes
			n := len(raw.Conn.Sent())
			raw.Send(erpc.TypeReply, msg.Seq, "", msg.Codec, good, nil, meta, nil)
			full := raw.Conn.Sent()[n:]
			_ = full
			raw.Conn.Peer.CutInboundAt(int64(n) + int64(e.Gen.Intn(len(full)+1)))
			return
		case "short_frame":
			// a complete frame whose length field is consistent but whose content stops early, and then nothing
			// more for this call: the peer stays connected
			if proto != "raw" && proto != "json" {
				raw.Send(erpc.TypeReply, msg.Seq, "", msg.Codec, good, nil, meta, nil)
				break
			}
			ta, _ := e.Net.Pair()
			tmp := world.NewRawPeer(ta, world.ProtoFunc(proto))
			tmp.Send(erpc.TypeReply, msg.Seq, "", msg.Codec, good, nil, meta, nil)
			f := append([]byte(nil), ta.Sent()...)
			ta.Close()
			// the cut falls in the tail that holds the body (both layouts put it last), so type and sequence
			// number are intact: this IS the reply to that call, malformed.  For the raw layout the earliest cut
			// is right after the metadata section: no body codec byte, no body
			tail := len(world.Encode(msg.Codec, good)) + 1
			if tail >= len(f)-8 {
				raw.Send(erpc.TypeReply, msg.Seq, "", msg.Codec, good, nil, meta, nil)
				break
			}
			cut := len(f) - tail + e.Gen.Intn(tail)
			if proto == "raw" && e.Gen.Chance(0.4) {
				cut = len(f) - tail
			}
			f = f[:cut]
			if proto == "raw" {
				binary.BigEndian.PutUint32(f, uint32(len(f)))
			} else {
				binary.BigEndian.PutUint32(f, uint32(len(f)-4))
			}
			raw.Conn.Write(f)
			// stay connected; nothing more is said about this call
		case "bad_status_body":
			// an error reply of the http protocol (status line 299) whose body is not a decodable status: it is the
			// reply to that call all the same, the connection stays up
			if proto != "http" {
				raw.Send(erpc.TypeReply, msg.Seq, "", msg.Codec, good, nil, meta, nil)
				break
			}
			body := []string{"<html>oops</html>", `{"code":99999999999}`, `{"code":1,"msg":`, ""}[e.Gen.Intn(4)]
			raw.Conn.Write([]byte(fmt.Sprintf("HTTP/1.1 299 Business Error\r\nContent-Type: application/json;charset=utf-8\r\nContent-Length: %d\r\nX-Seq: %d\r\nX-Mtype: 2\r\n\r\n%s", len(body), msg.Seq, body)))
		case "garbage":
			g := make([]byte, 1+e.Gen.Intn(40))
			e.Gen.Bytes(g)
			raw.Conn.Write(g)
			raw.Conn.Close()
			return
		case "silent_close":
			raw.Conn.Close()
			return
		}
	}
}
