package props

import (
	"fmt"
	"strings"
	"testing"

	erpc "github.com/henrylee2cn/erpc/v6"

	"simrt"
	"verif/simnet"
	"verif/world"
)

// C04 - the caller sees OK iff the handler succeeded and the reply was decoded.
//
// Two real peers over every shipped protocol (the websocket sub-protocols included) and every body
// codec; each call has a scripted outcome: handler returns OK, returns a status (any int32 code, message
// and cause over a hard alphabet), panics; the route is unknown; the request body cannot be decoded;
// a plugin vetoes at a drawn stage on either side; the caller's result type cannot hold the reply; the
// connection is cut before the reply.  Several calls run concurrently so pooled contexts are reused.
// Oracle: a 30-line model of the expected (ok, code, msg, cause) per scripted outcome.

func init() { register(&Prop{ID: "C04", Run: runC04}) }

type c04Case struct {
	op       *world.Op
	outcome  string // ok | status | panic | notfound | badbody | veto | badresult | cut
	vetoAt   string
	vetoCode int32
	status   [3]string
}

func runC04(t *testing.T, seed uint64, m *Mask) *Report {
	sc, nc, r := swarm(seed, m)
	opt := world.Options{Seed: seed, Sim: sc, Net: nc}
	protos := world.AllProtos()
	proto := protos[r.Intn(len(protos))]
	ws := world.IsWS(proto)
	genProto := proto
	if ws {
		genProto = "raw"
	}
	outcomes := []string{"ok", "ok", "status", "status", "status", "panic", "notfound", "badbody", "veto", "veto", "badresult", "cut"}
	vetoStages := []string{"PostReadCallHeader", "PreReadCallBody", "PostReadCallBody", "PreWriteCall", "PostReadReplyHeader", "PreReadReplyBody", "PostReadReplyBody"}
	n := 1 + r.Intn(8)
	var cases []*c04Case
	cutUsed := false
	for i := 0; i < n; i++ {
		op := world.GenOp(r, i, seed, genProto)
		if op.MetaK == "" {
			op.MetaK = "Mk" // the veto plugins of this check key on a metadata value
		}
		if op.Kind == "push" {
			op.Kind = []string{"call", "async"}[r.Intn(2)]
			if op.Route == "note" {
				op.Route = "echo"
			} else {
				op.Route = "plain"
			}
		}
		if len(op.Data) > 100 {
			op.Data = op.Data[:100]
		}
		if op.AcceptCodec != 0 && r.Chance(0.5) {
			// the caller wishes for a codec the answering side does not have: the documented fall-back is the
			// codec of the request, so the outcome is the one the handler produced
			op.AcceptCodec = []byte{200, 255, 1}[r.Intn(3)]
		}
		if ws {
			op.Pipe = nil
		}
		c := &c04Case{op: op, outcome: outcomes[r.Intn(len(outcomes))]}
		switch c.outcome {
		case "status":
			codes := []int32{1, -1, -2147483648, 2147483647, 100, 102, 400, 404, 500, 1000, 65536, int32(r.Uint64())}
			op.HCode = codes[r.Intn(len(codes))]
			if op.HCode == 0 {
				op.HCode = 7
			}
			alpha := "abc XYZ 019 \"\\&=%<>/+;|'{}[]:\t#?\n,.\u00e9\u4e2d"
			op.HStatus = [3]string{"", world.GenString(r, r.Intn(30), alpha), world.GenString(r, r.Intn(30), alpha)}
			// GenString indexes bytes: rebuild from runes to keep valid UTF-8
			op.HStatus[1] = genRunes(r, r.Intn(30), alpha)
			op.HStatus[2] = genRunes(r, r.Intn(30), alpha)
		case "panic":
			op.HPanic = true
			op.HPanicKind = r.Intn(6)
		case "notfound":
			op.Route = "/no/such/method"
			op.Codec = 'j'
			if proto == "thrift-struct" {
				op.Codec = 't'
			}
		case "veto":
			c.vetoAt = vetoStages[r.Intn(len(vetoStages))]
			c.vetoCode = int32(2000 + r.Intn(1000))
		case "cut":
			if cutUsed {
				c.outcome = "ok"
			}
			cutUsed = true
		case "badbody", "badresult":
			if op.Route != "echo" || op.Codec == 'f' || (c.outcome == "badresult" && op.Codec == 'x') {
				op.Route, op.Codec = "echo", 'j'
				if proto == "thrift-struct" {
					op.Codec = 't'
				}
			}
			if proto == "thrift-struct" {
				c.outcome = "ok" // the protocol decodes the struct while framing: covered by C02/C06
			}
		}
		cases = append(cases, c)
	}
	// the cut case goes last: it takes the session down
	for i, c := range cases {
		if c.outcome == "cut" {
			cases[i], cases[len(cases)-1] = cases[len(cases)-1], cases[i]
		}
	}
	concurrent := r.Chance(0.5)
	rep := &Report{NOps: len(cases)}
	rep.Cell = proto

	out := world.Run(t, opt, func(e *world.Env) {
		e.AllowUnknownArgs = true
		byTag := map[string]*c04Case{}
		for _, c := range cases {
			c.op.MetaV = c.op.MetaV + "#" + c.op.Tag // unique per op, visible to plugins on both sides
			if !m.opDropped(c.op.Idx) {
				e.OpByTag[c.op.Tag] = c.op
				byTag[c.op.Tag] = c
			}
		}
		// veto plugins: the server one keys on the Mk metadata value (unique per op), the client one on the tag in the output body
		vetoFor := func(stage string, metaV string) *erpc.Status {
			for _, c := range cases {
				if c.outcome == "veto" && c.vetoAt == stage && metaV != "" && c.op.MetaV == metaV {
					return erpc.NewStatus(c.vetoCode, "vetoed at "+stage, "veto cause "+c.op.Tag)
				}
			}
			return nil
		}
		srvPlug := &vetoPlugin{name: "veto-srv", fn: vetoFor}
		cliPlug := &vetoPlugin{name: "veto-cli", fn: vetoFor}
		srvPlugins := []erpc.Plugin{srvPlug}
		cliPlugins := []erpc.Plugin{cliPlug}
		if ws {
			cliPlugins = append([]erpc.Plugin{world.WSClientPlugin()}, cliPlugins...)
		}
		srv := e.NewPeer("srv", erpc.PeerConfig{}, srvPlugins...)
		cli := e.NewPeer("cli", erpc.PeerConfig{}, cliPlugins...)
		rt := e.RegisterStd(srv)
		pf := world.ProtoFunc(proto)
		var sess erpc.Session
		var conn *simnet.Conn
		if ws {
			e.ServeWS(srv, "10.9.0.1:9000", proto)
			var st *erpc.Status
			sess, st = cli.Dial("10.9.0.1:9000", pf)
			if !st.OK() {
				e.Fail("infra-dial-failed", "ws dial: %v", st)
				return
			}
			conn = e.Net.Conns[len(e.Net.Conns)-1]
		} else {
			var ca *simnet.Conn
			sess, _, ca, _ = e.ServePair(cli, srv, pf, pf)
			conn = ca
		}
		run := func(c *c04Case) {
			op := c.op
			switch c.outcome {
			case "badbody":
				// send bytes that cannot be decoded into the handler's argument type
				junk := []byte("\x01\xfe<<{{ not decodable " + op.Tag)
				res := new(world.Payload)
				cmd := sess.Call(rt.Echo, &junk, res, erpc.WithBodyCodec(op.Codec), erpc.WithAddMeta(op.MetaK, op.MetaV))
				recordCmd(e, op, cmd)
			case "badresult":
				res := new(int)
				cmd := sess.Call(rt.Echo, &world.Payload{Tag: op.Tag, Data: op.Data, N: op.N}, res, erpc.WithBodyCodec(op.Codec), erpc.WithAddMeta(op.MetaK, op.MetaV))
				recordCmd(e, op, cmd)
			case "cut":
				op.HYield = 3
				simrt.GoNamed("cutter", func() {
					simrt.YieldN(e.Gen.Intn(30))
					conn.CutNow()
				})
				e.Issue(sess, rt, op, nil)
			default:
				e.Issue(sess, rt, op, nil)
			}
		}
		var live []*c04Case
		for _, c := range cases {
			if !m.opDropped(c.op.Idx) {
				live = append(live, c)
			}
		}
		if concurrent {
			done := 0
			for _, c := range live {
				c := c
				simrt.GoNamed("caller", func() { run(c); done++ })
			}
			simrt.WaitCond(func() bool { return done == len(live) })
		} else {
			for i, c := range live {
				run(c)
				if c.outcome != "cut" && !sess.Health() {
					e.Fail("C04/session-died:"+proto, "the session went down after a call with outcome=%s codec=%q (caller got ok=%v %d %q %q)", c.outcome, c.op.Codec, c.op.OK, c.op.Code, c.op.Msg, c.op.Cause)
					live = live[:i+1]
					break
				}
			}
		}
		simrt.WaitQuiescent()
		e.CheckSettled("C04/task-stuck-at-quiescence", "proto="+proto)
		cutHappened := conn.IsBroken()
		sessionDied := false
		if !cutHappened && !sess.Health() {
			sessionDied = true
			var oc []string
			for _, c := range live {
				oc = append(oc, fmt.Sprintf("%s/%c", c.outcome, c.op.Codec))
			}
			if concurrent {
				e.Fail("C04/session-died:"+proto, "the session went down although no connection fault was injected; concurrent outcomes: %v", oc)
			}
		}
		for _, c := range live {
			op := c.op
			info := fmt.Sprintf("proto=%s codec=%q outcome=%s", proto, op.Codec, c.outcome)
			if c.vetoAt != "" {
				info += " stage=" + c.vetoAt
			}
			if !op.Done {
				e.Fail("C04/call-never-completes", "op %s (%s) not complete at quiescence", op.Tag, info)
				continue
			}
			if cutHappened && c.outcome != "cut" && !op.OK && (op.Code == erpc.CodeConnClosed || op.Code == erpc.CodeWriteFailed) && concurrent {
				continue // ran concurrently with the cut case
			}
			if sessionDied && !op.OK && (op.Code == erpc.CodeConnClosed || op.Code == erpc.CodeWriteFailed) {
				continue // collateral damage of the session going down, reported once above
			}
			handlerRan := false
			for _, ev := range e.Obs.Handlers {
				if !ev.Exit && world.TagOf(ev.Arg) == op.Tag {
					handlerRan = true
				}
			}
			switch c.outcome {
			case "ok":
				if !op.OK {
					e.Fail("C04/ok-reported-as-error", "op %s (%s): handler returned OK but the caller got %d %q %q", op.Tag, info, op.Code, op.Msg, op.Cause)
				} else if op.Result.Tag != op.Tag || op.Result.Data != world.ExpectData(op) {
					e.Fail("C04/ok-with-wrong-result", "op %s (%s): result %q", op.Tag, info, op.ResultStr)
				}
			case "status":
				if op.OK {
					e.Fail("C04/error-reported-as-ok", "op %s (%s): handler returned status %d %q %q but the caller got OK", op.Tag, info, op.HCode, op.HStatus[1], op.HStatus[2])
				} else if want := erpc.NewStatus(op.HCode, op.HStatus[1], op.HStatus[2]); op.Code != want.Code() || op.Msg != want.Msg() || (op.Cause != want.Cause().Error() && !(op.HStatus[2] == "" && op.Cause == op.Msg)) {
					e.Fail("C04/status-altered", "op %s (%s): handler returned (%d,%q,%q), caller got (%d,%q,%q)", op.Tag, info, op.HCode, op.HStatus[1], op.HStatus[2], op.Code, op.Msg, op.Cause)
				}
			case "panic":
				if op.OK {
					e.Fail("C04/error-reported-as-ok", "op %s (%s): handler panicked but the caller got OK", op.Tag, info)
				} else if op.Code != erpc.CodeInternalServerError || op.Msg != "Internal Server Error" || !strings.Contains(op.Cause, "scripted handler panic") {
					e.Fail("C04/panic-status-wrong", "op %s (%s): caller got (%d,%q,%q), want 500 with the panic text", op.Tag, info, op.Code, op.Msg, op.Cause)
				}
			case "notfound":
				if op.OK {
					e.Fail("C04/error-reported-as-ok", "op %s (%s): unknown route but the caller got OK", op.Tag, info)
				} else if op.Code != erpc.CodeNotFound || op.Msg != "Not Found" {
					e.Fail("C04/notfound-status-wrong", "op %s (%s): caller got (%d,%q,%q), want 404 Not Found", op.Tag, info, op.Code, op.Msg, op.Cause)
				}
				if handlerRan {
					e.Fail("C04/handler-ran-for-unknown-route", "op %s (%s)", op.Tag, info)
				}
			case "badbody":
				if op.OK {
					e.Fail("C04/error-reported-as-ok", "op %s (%s): undecodable request body but the caller got OK", op.Tag, info)
				} else if op.Code != erpc.CodeBadMessage || op.Msg != "Bad Message" {
					e.Fail("C04/badbody-status-wrong", "op %s (%s): caller got (%d,%q,%q), want 400 Bad Message", op.Tag, info, op.Code, op.Msg, op.Cause)
				}
			case "veto":
				if op.OK {
					e.Fail("C04/error-reported-as-ok", "op %s (%s): plugin vetoed but the caller got OK", op.Tag, info)
				} else if op.Code != c.vetoCode || op.Msg != "vetoed at "+c.vetoAt || op.Cause != "veto cause "+op.Tag {
					e.Fail("C04/veto-status-altered", "op %s (%s): caller got (%d,%q,%q), want the plugin's (%d,...)", op.Tag, info, op.Code, op.Msg, op.Cause, c.vetoCode)
				}
				before := c.vetoAt == "PostReadCallHeader" || c.vetoAt == "PreReadCallBody" || c.vetoAt == "PostReadCallBody" || c.vetoAt == "PreWriteCall"
				if before && handlerRan {
					e.Fail("C04/handler-ran-despite-veto", "op %s (%s)", op.Tag, info)
				}
			case "badresult":
				if op.OK {
					e.Fail("C04/undecoded-reply-reported-ok", "op %s (%s): the reply body cannot be decoded into the caller's result type but the caller got OK", op.Tag, info)
				}
			case "cut":
				if !op.OK && op.Code != erpc.CodeConnClosed && op.Code != erpc.CodeWriteFailed {
					e.Fail("C04/cut-status-wrong", "op %s (%s): caller got (%d,%q,%q), want a connection status", op.Tag, info, op.Code, op.Msg, op.Cause)
				}
				if op.OK && (op.Result.Tag != op.Tag || op.Result.Data != world.ExpectData(op)) {
					e.Fail("C04/ok-with-wrong-result", "op %s (%s): result %q", op.Tag, info, op.ResultStr)
				}
			}
		}
		e.CloseAll()
	})
	var sm []string
	for _, c := range cases {
		sm = append(sm, c.outcome)
	}
	rep.Sample = proto + ": " + strings.Join(sm, " ")
	return finish(rep, out)
}

func genRunes(r *simrt.Rand, n int, alpha string) string {
	rs := []rune(alpha)
	out := make([]rune, n)
	for i := range out {
		out[i] = rs[r.Intn(len(rs))]
	}
	return string(out)
}

func recordCmd(e *world.Env, op *world.Op, cmd erpc.CallCmd) {
	simrt.Yield()
	op.Issued, op.Done = true, true
	st := cmd.Status()
	op.OK = st.OK()
	if !st.OK() {
		op.Code, op.Msg = st.Code(), st.Msg()
		if c := st.Cause(); c != nil {
			op.Cause = c.Error()
		}
	}
}

// vetoPlugin vetoes at a stage chosen per message; messages are identified by the Mk metadata value.
type vetoPlugin struct {
	name string
	fn   func(stage, metaV string) *erpc.Status
}

func (v *vetoPlugin) Name() string { return v.name }

func metaOf(m erpc.Message) string {
	for _, k := range []string{"Mk", "Mk-A", "Mk-B", "Trace-Id", "Xx"} {
		if b := m.Meta().Peek(k); len(b) > 0 {
			return string(b)
		}
	}
	return ""
}

func (v *vetoPlugin) PostReadCallHeader(c erpc.ReadCtx) *erpc.Status {
	return v.fn("PostReadCallHeader", metaOf(c.Input()))
}
func (v *vetoPlugin) PreReadCallBody(c erpc.ReadCtx) *erpc.Status {
	return v.fn("PreReadCallBody", metaOf(c.Input()))
}
func (v *vetoPlugin) PostReadCallBody(c erpc.ReadCtx) *erpc.Status {
	return v.fn("PostReadCallBody", metaOf(c.Input()))
}
func (v *vetoPlugin) PreWriteCall(c erpc.WriteCtx) *erpc.Status {
	return v.fn("PreWriteCall", metaOf(c.Output()))
}

// the reply does not carry the request metadata: the client plugin recognises the call by its sequence number
func (v *vetoPlugin) PostReadReplyHeader(c erpc.ReadCtx) *erpc.Status {
	return v.fn("PostReadReplyHeader", string(c.Input().Meta().Peek("Veto-Key")))
}
func (v *vetoPlugin) PreReadReplyBody(c erpc.ReadCtx) *erpc.Status {
	return v.fn("PreReadReplyBody", string(c.Input().Meta().Peek("Veto-Key")))
}
func (v *vetoPlugin) PostReadReplyBody(c erpc.ReadCtx) *erpc.Status {
	return v.fn("PostReadReplyBody", string(c.Input().Meta().Peek("Veto-Key")))
}
