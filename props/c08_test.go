package props

import (
	"fmt"
	"testing"
	"time"

	erpc "github.com/henrylee2cn/erpc/v6"

	"simrt"
	"verif/simnet"
	"verif/world"
)

// C08 - graceful close loses no reply and waits for running handlers.
//
// Two real peers, one session; 0-6 calls in flight in each direction with drawn handler
// durations (yields and fake sleeps); then session.Close() or peer.Close() on side A, placed by
// the scheduler anywhere on the request/handler/reply timeline.  Sub-batch A: no connection fault.
// Sub-batch B: one cut.  Oracle: (a) every call whose handler was entered completes at its caller with
// the handler's genuine reply - never a connection error - unless the cut fired; (b) when Close returns,
// every handler of the closing side that had been entered has returned; (c) Close returns
// (nothing is parked for good at quiescence); (d) with a cut, calls may fail with a
// connection-class status but never return wrong data and never hang.

func init() { register(&Prop{ID: "C08", Run: runC08}) }

func runC08(t *testing.T, seed uint64, m *Mask) *Report {
	sc, nc, r := swarm(seed, m)
	opt := world.Options{Seed: seed, Sim: sc, Net: nc}
	protos := []string{"raw", "json", "pb", "thrift-binary", "thrift-struct", "http"}
	proto := protos[r.Intn(len(protos))]
	dial := r.Chance(0.5)
	closeKind := []string{"session", "session", "peer"}[r.Intn(3)]
	withCut := r.Chance(0.25)
	var ops []*world.Op
	for side := 0; side < 2; side++ {
		n := r.Intn(7)
		for j := 0; j < n; j++ {
			op := world.GenOp(r, len(ops), seed, proto)
			if op.Kind == "push" {
				op.Kind = "call"
				if op.Route == "note" {
					op.Route = "echo"
				} else {
					op.Route = "plain"
				}
			}
			if len(op.Data) > 60 {
				op.Data = op.Data[:60]
			}
			// some handlers answer with an error status, and some produce a result no codec can encode (the first
			// reply write fails and the framework falls back to a 500 reply): both are genuine replies that a
			// graceful close must still deliver
			switch k := r.Intn(10); {
			case k == 0:
				op.Route = "/std/weird"
			case k == 1:
				op.HCode, op.HStatus = int32(1000+r.Intn(50)), [3]string{"", "scripted", "cause"}
			}
			op.ToSrv = side == 0 // side 0: issued by A (the closing side) towards B
			op.Caller = j
			op.HYield = r.Intn(12)
			if r.Chance(0.5) {
				op.HSleep = time.Duration(1+r.Intn(20)) * time.Millisecond
			}
			ops = append(ops, op)
		}
	}
	// id takeover before the peer is closed: a second session between the same peers takes the id of the first,
	// which closes the first one gracefully; the peer close that follows must still wait for its handlers
	takeover := closeKind == "peer" && !withCut && r.Chance(0.3)
	vetoRead := !withCut && !takeover && r.Chance(0.2)
	// or the closing side's session reaches its maximum age (a read deadline on the simulated clock, set in a
	// connection hook) while Close waits for handlers: the calls towards the closing side are issued shortly
	// before the deadline, their handlers sleep through it, and Close starts in between
	ageRead := !withCut && !takeover && !vetoRead && r.Chance(0.2)
	ageD := time.Duration(1+r.Intn(150)) * time.Millisecond
	// or both ages are merely configured (long enough never to run out while the scenario is busy)
	agesSet := !ageRead && r.Chance(0.2)
	// a second Close of the same session while the first one is still waiting: it must not return before the
	// handlers have finished either.  And a handler that waits for the close notification before it answers (the
	// long-poll pattern): a local Close must still get its reply out
	r3 := simrt.NewRand(simrt.Mix(seed, 801))
	doubleClose := closeKind == "session" && !withCut && r3.Chance(0.25)
	waitsForNotify := !withCut && !takeover && !vetoRead && !ageRead && r3.Chance(0.15)
	closeYield := r.Intn(80)
	closeSleep := time.Duration(r.Intn(15)) * time.Millisecond
	cutAfter := time.Duration(r.Intn(25)) * time.Millisecond
	nFaults := 0
	if withCut {
		nFaults = 1
	}
	if m.faultDropped(0) {
		withCut = false
	}
	rep := &Report{NOps: len(ops), NFaults: nFaults}
	rep.Cell = fmt.Sprintf("%s,close=%s,cut=%v,dial=%v,takeover=%v,age=%v,ages=%v", proto, closeKind, withCut, dial, takeover, ageRead, agesSet)

	out := world.Run(t, opt, func(e *world.Env) {
		for _, op := range ops {
			if m.opDropped(op.Idx) {
				op.Dropped = true
			} else {
				e.OpByTag[op.Tag] = op
			}
		}
		pf := world.ProtoFunc(proto)
		// the closing side's reader may stop for a reason of its own while Close is waiting for handlers (a
		// PreReadHeader hook that refuses to read on, as a session-age deadline would): the replies still go out
		stopReading := false
		ageA := &world.AgeHook{Sticky: true}
		if ageRead {
			ageA.Next = ageD
		}
		cfgA := erpc.PeerConfig{}
		if agesSet {
			cfgA.DefaultSessionAge = time.Duration(5+e.Gen.Intn(60)) * time.Second
			cfgA.DefaultContextAge = time.Duration(2+e.Gen.Intn(30)) * time.Second
		}
		A := e.NewPeer("A", cfgA, ageA, &c08ReadGate{stop: func(s erpc.Session) bool {
			// only once the local Close has taken the session to its closing state (status 2, active closing)
			return stopReading && s != nil && erpc.VerifSessionStatus(s) == 2
		}})
		B := e.NewPeer("B", erpc.PeerConfig{})
		rtA := e.RegisterStd(A)
		rtB := e.RegisterStd(B)
		var sa, sb erpc.Session
		var ca *simnet.Conn
		if dial {
			e.Serve(B, "10.9.0.1:9000", pf)
			var st *erpc.Status
			sa, st = A.Dial("10.9.0.1:9000", pf)
			if !st.OK() {
				e.Fail("infra-dial-failed", "dial: %v", st)
				return
			}
			want := sa.LocalAddr().String()
			e.Until(func() bool { s := e.FindSession(B, want); return s != nil && s.Health() })
			sb = e.FindSession(B, want)
			ca = e.Net.Conns[len(e.Net.Conns)-1]
		} else {
			sa, sb, ca, _ = e.ServePair(A, B, pf, pf)
		}
		for _, op := range ops {
			if op.Dropped {
				continue
			}
			sess, rt := sa, rtB
			if !op.ToSrv {
				sess, rt = sb, rtA
			}
			lead := time.Duration(1+e.Gen.Intn(25)) * time.Millisecond
			if ageRead && !op.ToSrv {
				op.HSleep = lead + time.Duration(e.Gen.Intn(60))*time.Millisecond
			}
			simrt.GoNamed(fmt.Sprintf("caller%d", op.Idx), func() {
				if ageRead && !op.ToSrv {
					simrt.Sleep(time.Until(ageA.Deadline) - lead)
				}
				e.Issue(sess, rt, op, nil)
			})
		}
		closeStart, closeEnd := -1, -1
		closeEnd2 := -1
		if waitsForNotify {
			for _, op := range ops {
				if !op.Dropped && !op.ToSrv {
					op.HWaitClose = true
					e.Probe("c08-handler-waits-for-close-notify")
					break
				}
			}
		}
		if doubleClose {
			simrt.GoNamed("closer2", func() {
				simrt.WaitCond(func() bool { return closeStart >= 0 })
				simrt.YieldN(e.Gen.Intn(12))
				sa.Close()
				closeEnd2 = e.Sched.Stats.Steps
				e.Probe("c08-second-close-while-first-waits")
			})
		}
		simrt.GoNamed("closer", func() {
			simrt.YieldN(closeYield)
			if ageRead {
				e.Net.Fault("session_age")
				simrt.Sleep(time.Until(ageA.Deadline) - closeSleep)
			} else if closeSleep > 0 {
				simrt.Sleep(closeSleep)
			}
			closeStart = e.Sched.Stats.Steps
			stopReading = vetoRead
			if takeover {
				if s2, _, _, _ := e.ServePair(A, B, pf, pf); s2 != nil {
					s2.SetID(sa.ID())
					e.Probe("c08-id-takeover-before-peer-close")
				}
			}
			if closeKind == "peer" {
				A.Close()
			} else {
				sa.Close()
			}
			closeEnd = e.Sched.Stats.Steps
			simrt.Yield()
		})
		cutFired := false
		if withCut {
			e.Sched.After(cutAfter, func() {
				if !ca.IsClosed() {
					ca.CutNow()
					cutFired = true
				}
			})
		}
		simrt.WaitQuiescent()
		e.CheckSettled("C08/task-stuck-at-quiescence")
		if closeEnd < 0 {
			e.Fail("C08/close-never-returns", "Close (%s) started at step %d and had not returned at quiescence (cut=%v)", closeKind, closeStart, cutFired)
		}
		// with a session age in play the deadline may pass before the local Close has begun: then the session ends
		// passively (like a loss) and the statement about graceful close does not apply
		passive := false
		if ageRead {
			for _, ev := range e.Obs.Status {
				if ev.Sess == sa && ev.To == 4 {
					passive = true
					e.Probe("c08-age-expired-before-close")
				}
			}
			if !passive {
				e.Probe("c08-age-expired-during-close")
			}
		}
		// handler entry/exit per tag
		type hv struct{ enter, exit int }
		hs := map[string]*hv{}
		for _, ev := range e.Obs.Handlers {
			tag := ""
			if !ev.Exit {
				tag = world.TagOf(ev.Arg)
			}
			if ev.Exit {
				// exits carry no argument: match by (peer, session, seq) to the latest unmatched entry
				for i := len(e.Obs.Handlers) - 1; i >= 0; i-- {
					en := e.Obs.Handlers[i]
					if !en.Exit && en.Peer == ev.Peer && en.Sess == ev.Sess && en.Seq == ev.Seq && en.Step <= ev.Step {
						tag = world.TagOf(en.Arg)
						break
					}
				}
				if h := hs[tag]; h != nil && h.exit == 0 {
					h.exit = ev.Step
				}
				continue
			}
			hs[tag] = &hv{enter: ev.Step}
		}
		for _, op := range ops {
			if op.Dropped || !op.Issued {
				continue
			}
			info := fmt.Sprintf("proto=%s codec=%q dir=%s close=%s cut=%v", proto, op.Codec, map[bool]string{true: "A->B", false: "B->A"}[op.ToSrv], closeKind, cutFired)
			if !op.Done {
				e.Fail("C08/call-never-completes", "op %s (%s) not complete at quiescence", op.Tag, info)
				continue
			}
			h := hs[op.Tag]
			if op.OK && op.Route == "/std/weird" {
				continue // a lenient codec (form, xml) managed to encode something: not judged here
			}
			if op.OK {
				if op.Result.Tag != op.Tag || op.Result.Data != world.ExpectData(op) {
					e.Fail("C08/ok-without-own-reply", "op %s (%s): OK but result %q", op.Tag, info, op.ResultStr)
				}
				continue
			}
			if h != nil && ((op.Route == "/std/weird" && op.Code == erpc.CodeInternalServerError) || (op.HCode != 0 && op.Code == op.HCode)) {
				continue // the handler's genuine error reply arrived
			}
			if cutFired || passive {
				continue // a lost connection (or a session that ended passively) may fail any call in flight
			}
			// The statement covers handlers already entered when Close was called (closing side), and calls the
			// closing side issued before it called Close.  What starts after that point is not judged.
			covered := h != nil && ((!op.ToSrv && h.enter < closeStart) || (op.ToSrv && op.IssuedAt < closeStart))
			if (vetoRead || ageRead) && op.ToSrv {
				covered = false // the closing side stopped reading on purpose: the replies to its own calls are not read
			}
			if h != nil && !covered {
				e.Probe("handler-entered-after-close-began")
			}
			if covered {
				e.Fail("C08/reply-lost-on-graceful-close", "op %s (%s): its handler was entered (step %d, close started at %d, returned at %d) but the caller got %d %q %q", op.Tag, info, h.enter, closeStart, closeEnd, op.Code, op.Msg, op.Cause)
			} else if ageRead && h == nil && op.Code == erpc.CodeBadMessage {
				// the age ran out while the request frame was being read: the reader answers "bad message" with the
				// timeout as cause before it gives up - no handler was entered, nothing to deliver
				e.Probe("c08-age-expired-inside-a-request-frame")
			} else if op.Code != erpc.CodeConnClosed && op.Code != erpc.CodeWriteFailed {
				e.Fail("C08/unexpected-status", "op %s (%s): no handler ran, caller got %d %q %q", op.Tag, info, op.Code, op.Msg, op.Cause)
			}
		}
		// (b) handlers of the closing side entered before Close returned must have returned before it did
		if closeEnd >= 0 && !cutFired && !passive {
			for _, op := range ops {
				if op.Dropped || op.ToSrv {
					continue
				}
				if h := hs[op.Tag]; h != nil && h.enter < closeStart && (h.exit == 0 || h.exit > closeEnd) {
					e.Fail("C08/close-returned-before-handler", "handler of op %s on the closing side entered at step %d, Close returned at step %d, handler exit at %d", op.Tag, h.enter, closeEnd, h.exit)
				}
				if h := hs[op.Tag]; h != nil && closeEnd2 >= 0 && h.enter < closeStart && (h.exit == 0 || h.exit > closeEnd2) {
					e.Fail("C08/close-returned-before-handler", "handler of op %s on the closing side entered at step %d; a second, overlapping Close returned at step %d, handler exit at %d", op.Tag, h.enter, closeEnd2, h.exit)
				}
			}
		}
		e.CloseAll()
	})
	rep.Sample = sampleOps(ops, 4)
	return finish(rep, out)
}

// c08ReadGate is a PreReadHeader plugin that refuses to read the next message once told to.
type c08ReadGate struct{ stop func(erpc.Session) bool }

func (g *c08ReadGate) Name() string { return "readgate" }
func (g *c08ReadGate) PreReadHeader(c erpc.PreCtx) error {
	if g.stop(erpc.VerifSessionOf(c.Session())) {
		return fmt.Errorf("reading stopped by plugin")
	}
	return nil
}
