package props

import (
	"fmt"
	"strings"
	"testing"
	"time"

	erpc "github.com/henrylee2cn/erpc/v6"
	"github.com/henrylee2cn/erpc/v6/plugin/auth"
	"github.com/henrylee2cn/erpc/v6/plugin/ignorecase"
	"github.com/henrylee2cn/erpc/v6/plugin/proxy"
	"github.com/henrylee2cn/erpc/v6/plugin/secure"

	"simrt"
	"verif/simnet"
	"verif/world"
)

// C15 - framework statuses are immutable: error codes do not depend on history.
//
// Histories of 3-15 operations over a client, a proxy peer (shipped proxy plugin forwarding over a real
// session) and a backend: ordinary calls, every framework failure (404, 400, 500 handler panic, plugin veto,
// 102 on a closed session and on a cut with calls pending, write on a broken connection, failed dial),
// proxied calls and pushes with the backend up, closed, or cut while forwarding.  A fixed probe set of
// failing operations is evaluated before and after the history.
// Oracle: (a) step invariant - a snapshot (code, msg, cause) of every package-level status (hook H4) is
// compared after every scheduler step, so the first mutating step is named; (b) differential - each
// probe yields the same triple after the history as before it.

func init() { register(&Prop{ID: "C15", Run: runC15}) }

type sentinelSnap map[string][3]string

func snapSentinels() sentinelSnap {
	out := sentinelSnap{}
	for k, st := range erpc.VerifSentinels() {
		cause := "<nil>" // a nil cause and an empty one are different states of the status object
		if c := st.Cause(); c != nil {
			cause = c.Error()
		}
		out[k] = [3]string{fmt.Sprint(st.Code()), st.Msg(), cause}
	}
	return out
}

var c15Baseline sentinelSnap

func runC15(t *testing.T, seed uint64, m *Mask) *Report {
	sc, nc, r := swarm(seed, m)
	opt := world.Options{Seed: seed, Sim: sc, Net: nc}
	proto := []string{"raw", "raw", "json", "pb", "thrift-binary"}[r.Intn(5)]
	kinds := []string{"ok", "notfound", "badbody", "panic", "veto", "closed_call", "cut_pending", "dial_fail", "proxy_ok", "proxy_ok", "proxy_backend_closed", "proxy_push_backend_closed", "proxy_backend_cut", "proxy_push_ok", "reply_write_fails", "handshake_timeout", "plugin_panics_on_error_reply", "relay_closed_status", "shipped_plugins_notfound", "shipped_plugins_error", "shipped_plugins_ok", "unsupported_type_frame", "unsupported_type_frame", "handler_outlives_context_age"}
	n := 3 + r.Intn(13)
	var hist []string
	for i := 0; i < n; i++ {
		hist = append(hist, kinds[r.Intn(len(kinds))])
	}
	rep := &Report{NOps: len(hist)}
	rep.Cell = proto
	var trace []string

	if c15Baseline == nil {
		c15Baseline = snapSentinels()
	}
	out := world.Run(t, opt, func(e *world.Env) {
		e.AllowUnknownArgs = true
		// (a) step invariant
		reported := map[string]bool{}
		check := func(when string) {
			cur := snapSentinels()
			for k, v := range c15Baseline {
				if cur[k] != v && !reported[k] {
					reported[k] = true
					e.Fail("C15/sentinel-mutated:"+k, "package-level status %s changed from %q to %q %s | history: %s", k, v, cur[k], when, strings.Join(trace, " "))
				}
			}
		}
		e.Sched.OnStep = func(s *simrt.Sched) {
			if len(reported) == 0 {
				check(fmt.Sprintf("at scheduler step %d", s.Stats.Steps))
			}
		}
		defer func() {
			// restore, so that later runs in this process start from pristine statuses
			for k, st := range erpc.VerifSentinels() {
				if b, ok := c15Baseline[k]; ok && reported[k] {
					var code int32
					fmt.Sscan(b[0], &code)
					st.SetCode(code)
					st.SetMsg(b[1])
					if b[2] == "<nil>" {
						st.SetCause(nil)
					} else {
						st.SetCause(b[2])
					}
				}
			}
		}()
		vetoNext := false
		veto := &world.Recorder{PName: "veto", Env: e, Stages: map[string]bool{"PostReadCallBody": true}, Verdict: func(stage string, mtype byte, method string, seq int32) *erpc.Status {
			if vetoNext {
				vetoNext = false
				return erpc.NewStatus(4001, "vetoed", "by plugin")
			}
			return nil
		}}
		pf := world.ProtoFunc(proto)
		// a reply-stamping plugin with a common bug: it assumes every reply has a body and panics on error replies
		stampPanics := false
		stamper := &c15Stamper{on: func() bool { p := stampPanics; stampPanics = false; return p }}
		backend := e.NewPeer("backend", erpc.PeerConfig{}, veto, stamper)
		rt := e.RegisterStd(backend)
		// a gateway-style handler: it makes an onward call and hands that call's status back as its own
		var relayTarget erpc.Session
		relayRoute := backend.RouteCallFunc(func(c erpc.CallCtx, _ *world.Payload) (*world.Payload, *erpc.Status) {
			simrt.YieldQuiet()
			if relayTarget == nil {
				return &world.Payload{}, nil
			}
			return nil, relayTarget.Call("/std/echo", &world.Payload{Tag: "onward"}, new(world.Payload), erpc.WithBodyCodec('j')).Status()
		})
		// the proxy peer forwards everything over one session to the backend (re-established on demand)
		var fwd erpc.Session
		var fwdConn *simnet.Conn
		var fwdPeer erpc.Peer
		connectBackend := func() {
			fwd, _, fwdConn, _ = e.ServePair(fwdPeer, backend, pf, pf)
		}
		pp := proxy.NewPlugin(func(*proxy.Label) proxy.Forwarder { return fwd })
		prox := e.NewPeer("proxy", erpc.PeerConfig{}, pp)
		fwdPeer = prox
		connectBackend()
		cli := e.NewPeer("cli", erpc.PeerConfig{})
		direct, _, directConn, _ := e.ServePair(cli, backend, pf, pf)
		viaProxy, _, _, _ := e.ServePair(cli, prox, pf, pf)
		var authSrv erpc.Peer
		// a serving peer that carries shipped plugins as peer-level (global) plugins: they see every reply of that
		// peer, the framework's own failure replies included
		var agedPeer erpc.Peer
		var agedRt world.Routes
		var plugged erpc.Session
		var pluggedRt world.Routes
		connectPlugged := func() {
			if plugged != nil && plugged.Health() {
				return
			}
			pl := e.NewPeer("plugged", erpc.PeerConfig{}, secure.NewPlugin(100017, "cipherkey1234567"), ignorecase.NewIgnoreCase())
			pluggedRt = e.RegisterStd(pl)
			plugged, _, _, _ = e.ServePair(cli, pl, pf, pf)
		}
		tagN := 0
		mkop := func(kind, route string) *world.Op {
			tagN++
			op := &world.Op{Idx: 100 + tagN, Tag: fmt.Sprintf("T%x.h%d", seed&0xffffff, tagN), Kind: kind, Route: route, Data: "d", MetaK: "Mk", MetaV: "v", Codec: 'j'}
			e.OpByTag[op.Tag] = op
			return op
		}
		trip := func(op *world.Op) string {
			if op.OK {
				return "OK"
			}
			return fmt.Sprintf("(%d,%q,%q)", op.Code, op.Msg, op.Cause)
		}
		// the probe set: failing operations whose triple must not depend on history
		probes := func() map[string]string {
			out := map[string]string{}
			// 102: a call on a session this side closed
			s, _, _, _ := e.ServePair(cli, backend, pf, pf)
			s.Close()
			op := mkop("call", "echo")
			e.Issue(s, rt, op, nil)
			out["closed-session-call"] = trip(op)
			op = mkop("push", "note")
			e.Issue(s, rt, op, nil)
			out["closed-session-push"] = trip(op)
			// 404
			op = mkop("call", "/no/such/route")
			e.Issue(direct, rt, op, nil)
			out["unknown-route"] = trip(op)
			// 105
			_, st := cli.Dial("10.66.6.6:1", pf)
			out["dial-unreachable"] = fmt.Sprintf("(%d,%q)", st.Code(), st.Msg())
			// 502 through the proxy when the backend session is closed is history-dependent by construction; not a probe
			return out
		}
		before := probes()
		for i, k := range hist {
			if m.opDropped(i) {
				continue
			}
			trace = append(trace, k)
			if !direct.Health() {
				direct, _, directConn, _ = e.ServePair(cli, backend, pf, pf)
			}
			switch k {
			case "ok":
				e.Issue(direct, rt, mkop("call", "echo"), nil)
			case "notfound":
				e.Issue(direct, rt, mkop("call", "/nope"), nil)
			case "badbody":
				junk := []byte("\x01\xfe<<{{")
				direct.Call(rt.Echo, &junk, new(world.Payload), erpc.WithBodyCodec('j'))
			case "panic":
				op := mkop("call", "echo")
				op.HPanic = true
				e.Issue(direct, rt, op, nil)
			case "veto":
				vetoNext = true
				e.Issue(direct, rt, mkop("call", "echo"), nil)
			case "closed_call":
				s, _, _, _ := e.ServePair(cli, backend, pf, pf)
				s.Close()
				e.Issue(s, rt, mkop("call", "echo"), nil)
			case "cut_pending":
				op := mkop("call", "echo")
				op.HYield = 6
				done := false
				c := directConn
				simrt.GoNamed("cutter", func() { simrt.YieldN(e.Gen.Intn(20)); c.CutNow(); done = true })
				e.Issue(direct, rt, op, nil)
				simrt.WaitCond(func() bool { return done })
			case "dial_fail":
				cli.Dial("10.66.6.6:1", pf)
			case "plugin_panics_on_error_reply":
				// the reply to a call that already failed in the framework (unknown route) or in the handler makes a
				// PreWriteReply plugin panic: the recovery path runs with the failure status in hand
				stampPanics = true
				op := mkop("call", []string{"/nope", "echo"}[e.Gen.Intn(2)])
				if op.Route == "echo" {
					op.HCode, op.HStatus = 1010, [3]string{"", "scripted", "cause"}
				}
				e.Issue(direct, rt, op, nil)
				stampPanics = false
			case "handler_outlives_context_age":
				// a serving peer with a context age, and handlers that take longer than that (two at once): whatever the
				// framework answers - today nothing, the calls end when the connection goes - no shared status may change
				if agedPeer == nil {
					agedPeer = e.NewPeer("aged", erpc.PeerConfig{DefaultContextAge: 20 * time.Millisecond})
					agedRt = e.RegisterStd(agedPeer)
				}
				s, _, ca, _ := e.ServePair(cli, agedPeer, pf, pf)
				pending := 2
				for k := 0; k < 2; k++ {
					op := mkop("call", "echo")
					op.HSleep = time.Duration(40+20*k) * time.Millisecond
					simrt.GoNamed("slowcaller", func() { e.Issue(s, agedRt, op, nil); pending-- })
				}
				simrt.Sleep(150 * time.Millisecond)
				ca.CutNow()
				simrt.WaitCond(func() bool { return pending == 0 })
			case "unsupported_type_frame":
				// a foreign client sends a frame whose type the read loop does not serve (an authentication frame to a
				// peer without a checker, an undefined type): the session is refused with the framework's 405 status
				ra, rb := e.Net.Pair()
				if _, st := backend.ServeConn(rb, pf); st.OK() {
					mt := []byte{4, 5, 0, 9, 77}[e.Gen.Intn(5)]
					world.NewRawPeer(ra, pf).Send(mt, int32(1+e.Gen.Intn(50)), "/std/echo", 'j', []byte(`{}`), nil, nil, nil)
					simrt.WaitQuiescent()
				}
				ra.Close()
			case "shipped_plugins_notfound":
				connectPlugged()
				e.Issue(plugged, pluggedRt, mkop("call", "/nope/on/plugged"), nil)
			case "shipped_plugins_error":
				connectPlugged()
				op := mkop("call", "echo")
				if e.Gen.Chance(0.5) {
					op.HCode, op.HStatus = 1011, [3]string{"", "scripted", "cause"}
					e.Issue(plugged, pluggedRt, op, nil)
				} else {
					junk := []byte("\x01\xfe<<{{")
					plugged.Call(pluggedRt.Echo, &junk, new(world.Payload), erpc.WithBodyCodec('j'))
				}
			case "shipped_plugins_ok":
				connectPlugged()
				e.Issue(plugged, pluggedRt, mkop("call", "echo"), nil)
			case "relay_closed_status":
				// the onward session is closed already: the handler returns the framework's own connection-closed status
				if relayTarget == nil {
					relayTarget, _, _, _ = e.ServePair(backend, cli, pf, pf)
					relayTarget.Close()
				}
				direct.Call(relayRoute, &world.Payload{Tag: "relay"}, new(world.Payload), erpc.WithBodyCodec('j'))
			case "handshake_timeout":
				// a pre-session receive (the auth checker's handshake) runs under a context age and the client
				// stays silent: the read times out
				if authSrv == nil {
					authSrv = e.NewPeer("authsrv", erpc.PeerConfig{DefaultContextAge: time.Duration(10+e.Gen.Intn(40)) * time.Millisecond},
						auth.NewCheckerPlugin(func(sess auth.Session, recv auth.RecvOnce) (interface{}, *erpc.Status) {
							var info string
							if st := recv(&info); !st.OK() {
								return nil, st
							}
							return "welcome", nil
						}))
				}
				silent, cb := e.Net.Pair()
				authSrv.ServeConn(cb, pf)
				silent.Close()
			case "reply_write_fails":
				// the server's write of the reply (to a call that fails in the framework, fails in the handler
				// or succeeds) returns an error after a few bytes: the 104 path and its fallback reply
				s, _, _, cb := e.ServePair(cli, backend, pf, pf)
				cb.FailWrite(0, e.Gen.Intn(6))
				op := mkop("call", []string{"/nope", "/nope", "echo"}[e.Gen.Intn(3)])
				if op.Route == "echo" && e.Gen.Chance(0.5) {
					op.HCode, op.HStatus = 1009, [3]string{"", "scripted", "cause"}
				}
				e.Issue(s, rt, op, nil)
				s.Close()
			case "proxy_ok", "proxy_push_ok":
				if !fwd.Health() {
					connectBackend()
				}
				if k == "proxy_ok" {
					op := mkop("call", "echo")
					e.Issue(viaProxy, rt, op, nil)
					if !op.OK {
						e.Fail("C15/proxied-call-failed-with-backend-up", "proxied call: %s | history: %s", trip(op), strings.Join(trace, " "))
					}
				} else {
					e.Issue(viaProxy, rt, mkop("push", "note"), nil)
				}
			case "proxy_backend_closed", "proxy_push_backend_closed":
				fwd.Close()
				if k == "proxy_backend_closed" {
					op := mkop("call", "echo")
					e.Issue(viaProxy, rt, op, nil)
					if op.OK || op.Code != erpc.CodeBadGateway {
						e.Fail("C15/backend-down-not-502", "proxied call with the backend session closed: %s | history: %s", trip(op), strings.Join(trace, " "))
					}
				} else {
					e.Issue(viaProxy, rt, mkop("push", "note"), nil)
				}
			case "proxy_backend_cut":
				if !fwd.Health() {
					connectBackend()
				}
				op := mkop("call", "echo")
				op.HYield = 6
				c := fwdConn
				done := false
				simrt.GoNamed("cutter", func() { simrt.YieldN(e.Gen.Intn(30)); c.CutNow(); done = true })
				e.Issue(viaProxy, rt, op, nil)
				simrt.WaitCond(func() bool { return done })
				if !op.OK && op.Code != erpc.CodeBadGateway {
					e.Fail("C15/backend-down-not-502", "proxied call with the backend connection cut: %s | history: %s", trip(op), strings.Join(trace, " "))
				}
			}
			simrt.WaitQuiescent()
		}
		if !direct.Health() {
			direct, _, directConn, _ = e.ServePair(cli, backend, pf, pf)
		}
		after := probes()
		for k, v := range before {
			if after[k] != v {
				e.Fail("C15/probe-depends-on-history:"+k, "probe %s gave %s before the history and %s after it | history: %s", k, v, after[k], strings.Join(trace, " "))
			}
		}
		check("at the end of the history")
		e.Sched.OnStep = nil
		e.CloseAll()
	})
	rep.Sample = strings.Join(hist, " ")
	return finish(rep, out)
}

// c15Stamper is a PreWriteReply plugin that panics when asked to (a plugin that dereferences the reply body
// without checking that there is one).
type c15Stamper struct{ on func() bool }

func (p *c15Stamper) Name() string { return "stamper" }
func (p *c15Stamper) PreWriteReply(c erpc.WriteCtx) *erpc.Status {
	if p.on() {
		var body *string
		_ = *body // nil dereference, as with Output().Body().(*T) on an error reply
	}
	return nil
}
