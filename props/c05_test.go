package props

import (
	"bytes"
	"fmt"
	"strings"
	"testing"

	erpc "github.com/henrylee2cn/erpc/v6"
	"github.com/henrylee2cn/erpc/v6/socket"

	"simrt"
	"verif/simnet"
	"verif/world"
)

// C05 - wire protocols round-trip every message and never lose frame sync.
//
// Why simulation: the claim is about a byte *stream*: frames back to back, arbitrary read chunking, and
// state carried from one message to the next (byte counters, buffered reader, pooled buffers).  A writer
// task packs 1-20 generated messages through the real socket.Socket into a simnet stream; the network
// delivers it in seeded segments (down to one byte, split points biased to length prefixes, bufio size
// buggified); a reader task unpacks.  The same sequence is sent over a second connection with another
// chunking (differential).  Oracle: unpacked sequence == packed sequence field by field; the size reported
// for message k equals the number of stream bytes of frame k, and an identical message at another position
// reports the same size.

func init() { register(&Prop{ID: "C05", Run: runC05}) }

type c05Msg struct {
	Seq    int32
	Mtype  byte
	Method string
	Code   int32
	Msg    string
	Cause  string
	Meta   [][2]string
	Codec  byte
	Body   []byte
	Pipe   []byte
	// observed at the sender
	SentSize  uint32
	WireBytes int
}

func (m *c05Msg) String() string {
	return fmt.Sprintf("{seq=%d mtype=%d method=%q status=(%d,%q,%q) meta=%q codec=%d body=%dB pipe=%v}", m.Seq, m.Mtype, m.Method, m.Code, m.Msg, m.Cause, m.Meta, m.Codec, len(m.Body), m.Pipe)
}

const (
	c05Text   = "abcdefghijklmnopqrstuvwxyzABCDEFGHIJKLMNOPQRSTUVWXYZ0123456789_-./"
	c05Hard   = c05Text + " \"\\&=%<>+;|'{}[]:#?,"
	c05Binary = c05Hard + "\x00\x01\t\n\r\x1f\x7f\x80\xc3\xa9\xfe\xff"
)

func c05Gen(r *simrt.Rand, proto string, i int, small bool) *c05Msg {
	m := &c05Msg{}
	seqs := []int32{0, 1, -1, 2147483647, -2147483648, 35, 36, 1295, int32(r.Uint64())}
	m.Seq = seqs[r.Intn(len(seqs))]
	m.Mtype = []byte{erpc.TypeCall, erpc.TypeReply, erpc.TypePush}[r.Intn(3)]
	strAlpha, metaAlpha := c05Binary, c05Binary
	switch proto {
	case "json", "ws-json":
		// text protocols: header strings are quoted text
		strAlpha, metaAlpha = c05Hard, c05Hard
	case "http":
		strAlpha, metaAlpha = c05Text, c05Text
		m.Mtype = []byte{erpc.TypeCall, erpc.TypeReply}[r.Intn(2)]
	case "pb", "ws-pb":
		strAlpha = c05Hard // the service method is a proto3 string: valid UTF-8
	}
	lens := []int{0, 1, 2, 7, 30, 255}
	m.Method = world.GenString(r, lens[r.Intn(len(lens))], strAlpha)
	if proto == "http" {
		m.Method = "/" + world.GenString(r, 1+r.Intn(20), c05Text[:62])
	}
	if proto == "thrift-binary" || proto == "thrift-struct" {
		if len(m.Method) == 0 {
			m.Method = "m"
		}
	}
	if m.Mtype == erpc.TypeReply && r.Chance(0.5) {
		m.Code = []int32{1, -1, 400, 404, 500, 100000, -2147483648, 2147483647}[r.Intn(8)]
		m.Msg = world.GenString(r, r.Intn(20), strAlpha)
		m.Cause = world.GenString(r, r.Intn(20), strAlpha)
	}
	nm := r.Intn(5)
	for k := 0; k < nm; k++ {
		key := world.GenString(r, 1+r.Intn(8), metaAlpha)
		if proto == "http" {
			key = []string{"Mk", "Mk-A", "Trace-Id", "Xx"}[r.Intn(4)] + fmt.Sprint(k)
		} else if k > 0 && r.Chance(0.2) {
			key = m.Meta[0][0] // repeated key
		}
		val := world.GenString(r, r.Intn(12), metaAlpha)
		if proto == "http" && val == "" {
			val = "v"
		}
		m.Meta = append(m.Meta, [2]string{key, val})
	}
	// every registered codec id (the harness registers one with an id above 127) and "no codec"
	codecs := []byte{'j', 'p', 't', 'f', 'x', 's', 0, world.HighCodecID}
	m.Codec = codecs[r.Intn(len(codecs))]
	if proto == "http" {
		m.Codec = []byte{'j', 'p', 'f', 'x', 's'}[r.Intn(5)]
	}
	if proto == "thrift-struct" {
		m.Codec = 't'
	}
	blens := []int{0, 1, 2, 100, 255, 256, 1000, 5000}
	if i%7 == 3 && !small {
		blens = []int{65535, 65536}
	}
	if small {
		blens = []int{0, 1, 2, 100, 255, 256, 600}
	}
	m.Body = make([]byte, blens[r.Intn(len(blens))])
	if r.Chance(0.5) {
		r.Bytes(m.Body)
	} else {
		for k := range m.Body {
			m.Body[k] = "ab\"\\\n"[r.Intn(5)]
		}
	}
	if m.Code != 0 && proto == "http" {
		m.Body = nil // an http error reply carries the status as its body
	}
	switch proto {
	case "thrift-struct", "ws-json", "ws-pb":
	case "http":
		if r.Chance(0.3) {
			m.Pipe = []byte{[]byte{world.FGzip1, world.FGzip5, world.FGzip9}[r.Intn(3)]}
		}
	default:
		if r.Chance(0.5) {
			k := 1 + r.Intn(4)
			for j := 0; j < k; j++ {
				m.Pipe = append(m.Pipe, []byte{world.FGzip1, world.FGzip5, world.FGzip9, world.FMd5}[r.Intn(4)])
			}
		}
	}
	if proto == "ws-json" || proto == "ws-pb" {
		if r.Chance(0.4) {
			m.Pipe = []byte{[]byte{world.FGzip1, world.FGzip5, world.FMd5}[r.Intn(3)]}
		}
	}
	return m
}

func c05Send(raw *world.RawPeer, proto string, m *c05Msg) error {
	msg := socket.GetMessage()
	defer socket.PutMessage(msg)
	msg.SetSeq(m.Seq)
	msg.SetMtype(m.Mtype)
	msg.SetServiceMethod(m.Method)
	msg.SetBodyCodec(m.Codec)
	if proto == "thrift-struct" {
		msg.SetBody(&world.Payload{Tag: "t", Data: string(m.Body)})
	} else if m.Body != nil {
		msg.SetBody(m.Body)
	}
	if m.Code != 0 {
		msg.SetStatus(erpc.NewStatus(m.Code, m.Msg, m.Cause))
	}
	for _, kv := range m.Meta {
		msg.Meta().Add(kv[0], kv[1])
	}
	if len(m.Pipe) > 0 {
		if err := msg.XferPipe().Append(m.Pipe...); err != nil {
			return err
		}
	}
	before := len(raw.Conn.Sent())
	err := raw.Sock.WriteMessage(msg)
	m.SentSize = msg.Size()
	m.WireBytes = len(raw.Conn.Sent()) - before
	return err
}

func c05Recv(raw *world.RawPeer, proto string) (*c05Msg, uint32, error) {
	var p *world.Payload
	msg := socket.GetMessage(socket.WithNewBody(func(socket.Header) interface{} {
		if proto == "thrift-struct" {
			p = new(world.Payload)
			return p
		}
		return new([]byte)
	}))
	defer socket.PutMessage(msg)
	err := raw.Sock.ReadMessage(msg)
	if err != nil {
		return nil, 0, err
	}
	m := &c05Msg{Seq: msg.Seq(), Mtype: msg.Mtype(), Method: msg.ServiceMethod(), Codec: msg.BodyCodec()}
	if st := msg.Status(); !st.OK() {
		m.Code, m.Msg = st.Code(), st.Msg()
		if c := st.Cause(); c != nil {
			m.Cause = c.Error()
		}
	}
	msg.Meta().VisitAll(func(k, v []byte) { m.Meta = append(m.Meta, [2]string{string(k), string(v)}) })
	if b, ok := msg.Body().(*[]byte); ok && b != nil {
		m.Body = append([]byte(nil), (*b)...)
	}
	if p != nil {
		m.Body = []byte(p.Data)
	}
	m.Pipe = append([]byte(nil), msg.XferPipe().IDs()...)
	return m, msg.Size(), nil
}

func runC05(t *testing.T, seed uint64, m *Mask) *Report {
	sc, nc, r := swarm(seed, m)
	opt := world.Options{Seed: seed, Sim: sc, Net: nc}
	opt.ReaderSize = []int{16, 64, 1024, 4096}[r.Intn(4)]
	protos := world.AllProtos()
	proto := protos[r.Intn(len(protos))]
	n := 1 + r.Intn(20)
	segB := r.Intn(4)
	bytewise := nc.SegMode == 2 || segB == 2
	var msgs []*c05Msg
	for i := 0; i < n; i++ {
		if i > 0 && r.Chance(0.15) {
			c := *msgs[r.Intn(len(msgs))] // an identical message at another position
			msgs = append(msgs, &c)
		} else {
			msgs = append(msgs, c05Gen(r, proto, i, bytewise))
		}
	}
	rep := &Report{NOps: len(msgs)}
	rep.Cell = proto

	out := world.Run(t, opt, func(e *world.Env) {
		var live []*c05Msg
		for i, mm := range msgs {
			if !m.opDropped(i) {
				live = append(live, mm)
			}
		}
		ws := world.IsWS(proto)
		mk := func() (*world.RawPeer, *world.RawPeer) {
			ca, cb := e.Net.Pair()
			if ws {
				a, b := world.NewWSPair(e, ca, cb, proto)
				return a, b
			}
			pf := world.ProtoFunc(proto)
			return world.NewRawPeer(ca, pf), world.NewRawPeer(cb, pf)
		}
		type lane struct {
			tx, rx *world.RawPeer
			got    []*c05Msg
			sizes  []uint32
			err    error
			done   bool
		}
		lanes := []*lane{{}, {}}
		for li, ln := range lanes {
			if li == 1 {
				e.Net.Cfg.SegMode = segB // the second lane uses another chunking
			}
			ln.tx, ln.rx = mk()
			if ln.tx == nil {
				e.Fail("infra-ws-setup", "websocket pair could not be established")
				return
			}
			ln := ln
			li := li
			simrt.GoNamed(fmt.Sprintf("writer%d", li), func() {
				for _, mm := range live {
					cp := *mm
					if err := c05Send(ln.tx, proto, &cp); err != nil {
						e.Fail("C05/pack-failed:"+proto, "lane %d: Pack refused a message within the protocol's field set: %v: %s", li, err, mm)
						ln.tx.Conn.Close()
						return
					}
					if li == 0 {
						mm.SentSize, mm.WireBytes = cp.SentSize, cp.WireBytes
					}
					simrt.YieldN(e.Gen.Intn(3))
				}
			})
			simrt.GoNamed(fmt.Sprintf("reader%d", li), func() {
				defer func() { ln.done = true }()
				for range live {
					g, sz, err := c05Recv(ln.rx, proto)
					if err != nil {
						ln.err = err
						return
					}
					ln.got = append(ln.got, g)
					ln.sizes = append(ln.sizes, sz)
				}
			})
		}
		simrt.WaitQuiescent()
		for li, ln := range lanes {
			info := fmt.Sprintf("proto=%s lane=%d segmode=%d readersize=%d", proto, li, map[int]int{0: nc.SegMode, 1: segB}[li], opt.ReaderSize)
			if ln.err != nil {
				e.Fail("C05/unpack-error:"+proto, "%s: frame %d of %d: %v (previous frame %s)", info, len(ln.got), len(live), ln.err, prevMsg(live, len(ln.got)))
				continue
			}
			if !ln.done || len(ln.got) != len(live) {
				e.Fail("C05/frame-sync-lost:"+proto, "%s: reader got %d of %d frames and is waiting for more bytes", info, len(ln.got), len(live))
				continue
			}
			for i, want := range live {
				got := ln.got[i]
				if d := c05Diff(proto, want, got); d != "" {
					e.Fail("C05/field-differs:"+proto, "%s: frame %d: %s | sent %s | got %s", info, i, d, want, got)
					break
				}
			}
			if li == 0 && proto != "http" && !ws {
				// the reported size may exclude a fixed prefix, but it must be a function of the frame alone:
				// the receiver must report what the sender reported, whatever came before on the connection
				for i, want := range live {
					if ln.sizes[i] != want.SentSize {
						e.Fail("C05/size-depends-on-history:"+proto, "%s: frame %d of %d occupies %d stream bytes, the sender reported size %d but the receiver reports %d", info, i, len(live), want.WireBytes, want.SentSize, ln.sizes[i])
						break
					}
					if d := want.WireBytes - int(want.SentSize); d < 0 || d > 8 {
						e.Fail("C05/size-not-own-frame:"+proto, "%s: frame %d occupies %d stream bytes but the sender reports size %d", info, i, want.WireBytes, want.SentSize)
						break
					}
				}
			}
		}
		for _, ln := range lanes {
			ln.tx.Conn.Close()
			ln.rx.Conn.Close()
		}
	})
	var sm []string
	for i, mm := range msgs {
		if i < 3 {
			sm = append(sm, mm.String())
		}
	}
	rep.Sample = fmt.Sprintf("%s %d frames: %s", proto, len(msgs), strings.Join(sm, " "))
	return finish(rep, out)
}

func prevMsg(live []*c05Msg, i int) string {
	if i > 0 && i-1 < len(live) {
		return live[i-1].String()
	}
	return "-"
}

func c05Diff(proto string, want, got *c05Msg) string {
	ws := world.IsWS(proto)
	if want.Seq != got.Seq {
		return fmt.Sprintf("seq %d != %d", got.Seq, want.Seq)
	}
	if want.Mtype != got.Mtype {
		return fmt.Sprintf("mtype %d != %d", got.Mtype, want.Mtype)
	}
	if proto == "http" && want.Mtype == erpc.TypeReply {
		// an http response line carries no service method
	} else if want.Method != got.Method {
		return fmt.Sprintf("method %q != %q", got.Method, want.Method)
	}
	if !ws { // the websocket sub-protocols have no status field (see C04's open finding)
		wc := want.Cause
		wantMsg := want.Msg
		if want.Code != 0 {
			wantMsg = erpc.NewStatus(want.Code, want.Msg, want.Cause).Msg()
		}
		if want.Code != got.Code || wantMsg != got.Msg || (wc != got.Cause && !(wc == "" && got.Cause == got.Msg)) {
			return fmt.Sprintf("status (%d,%q,%q) != (%d,%q,%q)", got.Code, got.Msg, got.Cause, want.Code, want.Msg, want.Cause)
		}
	}
	if proto == "http" {
		// documented mapping onto HTTP headers: compare as a set of the sender's pairs (the protocol adds its own headers)
		for _, kv := range want.Meta {
			found := false
			for _, g := range got.Meta {
				if g[0] == kv[0] && g[1] == kv[1] {
					found = true
				}
			}
			if !found {
				return fmt.Sprintf("meta %q lost (got %q)", kv, got.Meta)
			}
		}
	} else if fmt.Sprint(want.Meta) != fmt.Sprint(got.Meta) && !(len(want.Meta) == 0 && len(got.Meta) == 0) {
		return fmt.Sprintf("meta %q != %q", got.Meta, want.Meta)
	}
	if want.Codec != got.Codec && !(proto == "http" && want.Code != 0) {
		return fmt.Sprintf("codec %d != %d", got.Codec, want.Codec)
	}
	if !bytes.Equal(want.Body, got.Body) && !(len(want.Body) == 0 && len(got.Body) == 0) {
		return fmt.Sprintf("body differs (%d bytes vs %d)", len(got.Body), len(want.Body))
	}
	if !bytes.Equal(want.Pipe, got.Pipe) {
		return fmt.Sprintf("pipe %v != %v", got.Pipe, want.Pipe)
	}
	return ""
}

var _ = simnet.Config{}
