package props

import (
	"bufio"
	"encoding/json"
	"fmt"
	"os"
	"runtime"
	"runtime/pprof"
	"sort"
	"strconv"
	"strings"
	"testing"
	"time"

	"simrt"
	"verif/simnet"
	"verif/world"
)

// Mask is what minimisation varies: dropped operations / faults and a forced schedule.
type Mask struct {
	DropOps    []int   `json:"drop_ops,omitempty"`
	DropFaults []int   `json:"drop_faults,omitempty"`
	Choices    []int32 `json:"choices,omitempty"`
	// ForceSchedule: the scheduler follows Choices and then always continues the current task.
	ForceSchedule bool `json:"force_schedule,omitempty"`
	Shrink        int  `json:"shrink,omitempty"` // payload shrink level
}

func (m *Mask) opDropped(i int) bool {
	if m == nil {
		return false
	}
	for _, d := range m.DropOps {
		if d == i {
			return true
		}
	}
	return false
}

func (m *Mask) faultDropped(i int) bool {
	if m == nil {
		return false
	}
	for _, d := range m.DropFaults {
		if d == i {
			return true
		}
	}
	return false
}

// Report of one simulated run (one JSON line of worker output).
type Report struct {
	Prop         string         `json:"prop"`
	Seed         uint64         `json:"seed"`
	Classes      []string       `json:"classes,omitempty"`
	Failures     []string       `json:"failures,omitempty"`
	Inconclusive bool           `json:"inconclusive,omitempty"`
	Steps        int            `json:"steps"`
	Switches     int            `json:"switches"`
	MultiEnabled int            `json:"multi_enabled"`
	Tasks        int            `json:"tasks"`
	SimNanos     int64          `json:"sim_ns"`
	Sig          string         `json:"sig"`
	SchedSig     string         `json:"sched_sig"`
	StateSig     string         `json:"state_sig,omitempty"`
	Faults       map[string]int `json:"faults,omitempty"`
	Probes       map[string]int `json:"probes,omitempty"`
	Cell         string         `json:"cell,omitempty"`
	Sample       string         `json:"sample,omitempty"`
	NOps         int            `json:"n_ops"`
	NFaults      int            `json:"n_faults"`
	NChoices     int            `json:"n_choices"`
	WallMs       float64        `json:"wall_ms"`
	Unclean      bool           `json:"unclean,omitempty"`
	Stuck        []string       `json:"stuck,omitempty"`
	ExtOracle    bool           `json:"ext_oracle,omitempty"` // failures come from an oracle outside the simulator (the race detector): see Prop.ExtOracle
	choices      []int32
}

// Prop is one property check.
type Prop struct {
	ID string
	// ExtOracle marks a property judged by an oracle with state of its own outside the simulator (the race
	// detector: bounded shadow memory with random eviction, addresses that depend on the allocator).  The
	// execution is still a pure function of the seed and is held to the determinism self-check (signature,
	// steps); what the oracle reports about one execution may differ slightly from process to process, so
	// classes are not compared there and a replay is given a few attempts to make the oracle speak again.
	ExtOracle bool
	Run       func(t *testing.T, seed uint64, m *Mask) *Report
}

var registry = map[string]*Prop{}

func register(p *Prop) { registry[p.ID] = p }

// finish fills the generic parts of a report from a run outcome.
func finish(rep *Report, out *world.Outcome) *Report {
	res := out.Res
	rep.Failures = append(rep.Failures, res.Failures...)
	rep.Classes = out.Classes()
	rep.Steps = res.Stats.Steps
	rep.Switches = res.Stats.Switches
	rep.MultiEnabled = res.Stats.MultiEnabled
	rep.Tasks = res.Stats.Tasks
	rep.SimNanos = int64(res.Stats.SimTime)
	rep.Sig = strconv.FormatUint(res.Sig, 16)
	if out.Env != nil && out.Env.Sched != nil {
		rep.SchedSig = strconv.FormatUint(out.Env.Sched.SwitchSignature(), 16)
	}
	rep.Inconclusive = res.Stats.Capped
	if out.Env != nil {
		rep.Probes = out.Env.Probes
		if out.Env.Net != nil {
			rep.Faults = out.Env.Net.St.Faults
		}
	}
	rep.NChoices = len(res.Choices)
	rep.choices = res.Choices
	rep.WallMs = float64(out.Wall.Microseconds()) / 1000
	rep.Unclean = !res.Clean
	rep.Stuck = append(append([]string{}, res.Stuck...), res.Native...)
	if os.Getenv("VERIF_DEBUG") != "" && out.Env != nil {
		fmt.Fprintf(os.Stderr, "--- notes: %v\n", out.Env.Notes)
		for _, st := range out.Env.Obs.Status {
			fmt.Fprintf(os.Stderr, "status step=%d sess=%s %d->%d\n", st.Step, world.SessKey(st.Sess), st.From, st.To)
		}
		for _, pe := range out.Env.Obs.Plugins {
			fmt.Fprintf(os.Stderr, "plugin step=%d %s %s %s sess=%s seq=%d\n", pe.Step, pe.Peer, pe.Plugin, pe.Stage, pe.Sess, pe.Seq)
		}
		for _, f := range res.Failures {
			fmt.Fprintf(os.Stderr, "FAIL %s\n", f)
		}
		fmt.Fprintf(os.Stderr, "stuck=%v native=%v\n", res.Stuck, res.Native)
	}
	if tp := os.Getenv("VERIF_TRACE"); tp != "" && tp != "1" {
		if f, err := os.OpenFile(tp, os.O_APPEND|os.O_CREATE|os.O_WRONLY, 0o644); err == nil {
			fmt.Fprintf(f, "=== run sig=%x steps=%d\n%s\n", res.Sig, res.Stats.Steps, strings.Join(res.Log, "\n"))
			f.Close()
		}
	}
	if rep.Inconclusive {
		// a capped run decides nothing
		rep.Classes, rep.Failures = nil, nil
	}
	return rep
}

// swarm draws the generic per-run simulator configuration.
func swarm(seed uint64, m *Mask) (simrt.Config, simnet.Config, *simrt.Rand) {
	r := simrt.NewRand(simrt.Mix(seed, 21))
	var sc simrt.Config
	switch r.Intn(10) {
	case 0, 1, 2:
		sc.Policy = simrt.PolRandom
	case 3, 4, 5:
		sc.Policy = simrt.PolSticky
		sc.StickyP = []float64{0.5, 0.8, 0.95}[r.Intn(3)]
	case 6, 7:
		sc.Policy = simrt.PolPCT
		sc.PCTDepth = 1 + r.Intn(3)
		sc.PCTSteps = 200 << r.Intn(4)
	case 8:
		sc.Policy = simrt.PolRR
	default:
		sc.Policy = simrt.PolStarve
		sc.StarveK = 20 << r.Intn(4)
	}
	sc.MaxSteps = 60000
	if r.Chance(0.3) {
		sc.PoolMissP = 0.2
	}
	sc.PoolMode = r.Intn(3)
	var nc simnet.Config
	nc.MinLatency = time.Duration(r.Intn(3)) * 100 * time.Microsecond
	nc.Jitter = []time.Duration{0, 50 * time.Microsecond, time.Millisecond, 20 * time.Millisecond}[r.Intn(4)]
	nc.SegMode = r.Intn(4)
	nc.Coalesce = []float64{0, 0.5, 1}[r.Intn(3)]
	if m != nil && (m.ForceSchedule || len(m.Choices) > 0) {
		sc.Replay = m.Choices
		sc.ReplayThenDefault = m.ForceSchedule
	}
	if os.Getenv("VERIF_TRACE") != "" {
		sc.TraceEvents = true
	}
	return sc, nc, r
}

// ReplayFile is the replay artefact written for a violation.
type ReplayFile struct {
	Property string   `json:"property"`
	Class    string   `json:"class"`
	Seed     uint64   `json:"seed"`
	Mask     *Mask    `json:"mask"`
	Failures []string `json:"failures"`
	Cell     string   `json:"cell,omitempty"`
	Sample   string   `json:"sample,omitempty"`
	Steps    int      `json:"steps"`
	Note     string   `json:"note,omitempty"`
}

func hasClass(rep *Report, class string) bool {
	for _, c := range rep.Classes {
		if c == class {
			return true
		}
	}
	return false
}

// minimise shrinks (ops, faults, schedule) while the same violation class persists.
func minimise(t *testing.T, p *Prop, seed uint64, class string, first *Report, budget int) (*Mask, *Report) {
	best := &Mask{}
	bestRep := first
	runs := 0
	try := func(m *Mask) *Report {
		if runs >= budget {
			return nil
		}
		runs++
		r := p.Run(t, seed, m)
		if hasClass(r, class) {
			if p.ExtOracle {
				// keep a reduction only if the external oracle speaks twice in a row for it
				if r2 := p.Run(t, seed, m); !hasClass(r2, class) {
					return nil
				}
			}
			return r
		}
		return nil
	}
	clone := func(m *Mask) *Mask {
		c := *m
		c.DropOps = append([]int(nil), m.DropOps...)
		c.DropFaults = append([]int(nil), m.DropFaults...)
		c.Choices = append([]int32(nil), m.Choices...)
		return &c
	}
	// 1. drop faults one by one
	for i := 0; i < first.NFaults; i++ {
		c := clone(best)
		c.DropFaults = append(c.DropFaults, i)
		if r := try(c); r != nil {
			best, bestRep = c, r
		}
	}
	// 2. drop operations: halves first, then singles
	n := first.NOps
	for chunk := n / 2; chunk >= 1; chunk /= 2 {
		for lo := 0; lo < n; lo += chunk {
			c := clone(best)
			added := false
			for i := lo; i < lo+chunk && i < n; i++ {
				if !best.opDropped(i) {
					c.DropOps = append(c.DropOps, i)
					added = true
				}
			}
			if !added {
				continue
			}
			if r := try(c); r != nil {
				best, bestRep = c, r
			}
		}
	}
	// 3. schedule: pin the recorded choices, then cut the tail (the rest continues the current task)
	pinned := clone(best)
	pinned.Choices = append([]int32(nil), bestRep.choices...)
	pinned.ForceSchedule = true
	if r := try(pinned); r != nil {
		best, bestRep = pinned, r
		lo, hi := 0, len(best.Choices)
		for lo < hi && runs < budget {
			mid := (lo + hi) / 2
			c := clone(best)
			c.Choices = c.Choices[:mid]
			if r := try(c); r != nil {
				best, bestRep = c, r
				hi = mid
			} else {
				lo = mid + 1
			}
		}
		// 4. remove individual preemptions (non-zero choices), latest first
		for i := len(best.Choices) - 1; i >= 0 && runs < budget; i-- {
			if best.Choices[i] == 0 {
				continue
			}
			c := clone(best)
			c.Choices[i] = 0
			if r := try(c); r != nil {
				best, bestRep = c, r
			}
		}
		// trim trailing zeros
		k := len(best.Choices)
		for k > 0 && best.Choices[k-1] == 0 {
			k--
		}
		best.Choices = best.Choices[:k]
	}
	sort.Ints(best.DropOps)
	sort.Ints(best.DropFaults)
	return best, bestRep
}

func envInt(name string, def int) int {
	if v := os.Getenv(name); v != "" {
		if n, err := strconv.Atoi(v); err == nil {
			return n
		}
	}
	return def
}

func envU64(name string, def uint64) uint64 {
	if v := os.Getenv(name); v != "" {
		if n, err := strconv.ParseUint(v, 10, 64); err == nil {
			return n
		}
	}
	return def
}

// TestWorker is the entry point the runner uses.
//
//	VERIF_PROP=C01 VERIF_SEED_START=.. VERIF_SEED_STRIDE=.. VERIF_SEED_COUNT=.. VERIF_DEADLINE_MS=.. VERIF_OUT=file   batch
//	VERIF_PROP=C01 VERIF_MINIMISE=<seed> VERIF_CLASS=<class> VERIF_REPLAY_OUT=file                                   minimise
//	VERIF_REPLAY=file                                                                                                 replay
func TestWorker(t *testing.T) {
	if g := envInt("VERIF_GOMAXPROCS", 0); g > 0 {
		runtime.GOMAXPROCS(g)
	}
	if simrt.RaceEnabled {
		// the testing package fails a test during which the race detector spoke; the reports were read from the
		// race log and turned into failure lines, so leave before it does (deferred flushes run first)
		defer func() {
			if p := recover(); p != nil {
				panic(p)
			}
			os.Exit(0)
		}()
	}
	if f := os.Getenv("VERIF_REPLAY"); f != "" {
		workerReplay(t, f)
		return
	}
	id := os.Getenv("VERIF_PROP")
	p := registry[id]
	if p == nil {
		if id == "" {
			t.Skip("VERIF_PROP not set")
		}
		fmt.Fprintf(os.Stderr, "unknown property %q\n", id)
		os.Exit(2)
	}
	if ms := os.Getenv("VERIF_MINIMISE"); ms != "" {
		workerMinimise(t, p, ms)
		return
	}
	start := envU64("VERIF_SEED_START", 1)
	stride := envU64("VERIF_SEED_STRIDE", 1)
	count := envInt("VERIF_SEED_COUNT", 1)
	deadline := time.Now().Add(time.Duration(envInt("VERIF_DEADLINE_MS", 3600000)) * time.Millisecond)
	outPath := os.Getenv("VERIF_OUT")
	var w *bufio.Writer
	if outPath != "" {
		f, err := os.Create(outPath)
		if err != nil {
			fmt.Fprintln(os.Stderr, err)
			os.Exit(2)
		}
		defer f.Close()
		w = bufio.NewWriter(f)
		defer w.Flush()
	} else {
		w = bufio.NewWriter(os.Stdout)
		defer w.Flush()
	}
	enc := json.NewEncoder(w)
	warmUp(t, p, start)
	for i := 0; i < count; i++ {
		if time.Now().After(deadline) {
			break
		}
		seed := start + uint64(i)*stride
		rep := p.Run(t, seed, nil)
		rep.Prop = id
		rep.Seed = seed
		rep.ExtOracle = p.ExtOracle
		if os.Getenv("VERIF_TRACE") == "" {
			// keep lines small, but never drop a class: at most 3 failure lines per class
			per := map[string]int{}
			kept := rep.Failures[:0:0]
			for _, f := range rep.Failures {
				c := f[:indexOf(f, ": ")]
				if per[c] < 3 {
					per[c]++
					kept = append(kept, f)
				}
			}
			rep.Failures = kept
		}
		enc.Encode(rep)
		w.Flush()
		if i%100 == 99 && outPath != "" && os.Getenv("VERIF_DEADLINE_MS") != "" {
			// goroutines the system under test never ends (a ticker of a plugin without a Close) stay
			// behind after their run and pin its heap: hand over to a fresh process before that hurts
			var ms runtime.MemStats
			runtime.ReadMemStats(&ms)
			if ms.Sys > workerMemLimit {
				w.Flush()
				fmt.Printf("RECYCLE next=%d\n", seed+stride)
				break
			}
		}
		if i%200 == 199 && os.Getenv("VERIF_MEMSTAT") != "" {
			var ms runtime.MemStats
			runtime.ReadMemStats(&ms)
			fmt.Fprintf(os.Stderr, "memstat runs=%d goroutines=%d heapInuse=%dMB stackInuse=%dMB sys=%dMB\n", i+1, runtime.NumGoroutine(), ms.HeapInuse>>20, ms.StackInuse>>20, ms.Sys>>20)
		}
	}
	if os.Getenv("VERIF_MEMSTAT") == "2" {
		pprof.Lookup("goroutine").WriteTo(os.Stderr, 1)
	}
	if simrt.RaceEnabled {
		// the testing package marks the test failed as soon as the race detector has reported anything; the
		// reports have been turned into violation lines above, so the process status must not say FAIL
		w.Flush()
		os.Exit(0)
	}
}

// warmUp executes one discarded run so that process-level lazy state (sync.Once values,
// reflection caches, lazily built tables) is the same for every reported run, whichever
// process executes it and in whatever position.
func warmUp(t *testing.T, p *Prop, seed uint64) { p.Run(t, seed, nil) }

func workerMinimise(t *testing.T, p *Prop, ms string) {
	seed, _ := strconv.ParseUint(ms, 10, 64)
	warmUp(t, p, seed)
	class := os.Getenv("VERIF_CLASS")
	first := p.Run(t, seed, nil)
	if !hasClass(first, class) {
		fmt.Fprintf(os.Stderr, "minimise: seed %d does not reproduce class %q in this process (got %v)\n", seed, class, first.Classes)
		os.Exit(3)
	}
	m, rep := minimise(t, p, seed, class, first, envInt("VERIF_MIN_BUDGET", 250))
	var fails []string
	for _, f := range rep.Failures {
		if strings.HasPrefix(f, class) {
			fails = append(fails, f)
		}
	}
	rf := &ReplayFile{Property: p.ID, Class: class, Seed: seed, Mask: m, Failures: fails, Cell: rep.Cell, Sample: rep.Sample, Steps: rep.Steps,
		Note: fmt.Sprintf("minimised from ops=%d faults=%d choices=%d to dropped_ops=%d dropped_faults=%d pinned_choices=%d", first.NOps, first.NFaults, first.NChoices, len(m.DropOps), len(m.DropFaults), len(m.Choices))}
	b, _ := json.MarshalIndent(rf, "", " ")
	if err := os.WriteFile(os.Getenv("VERIF_REPLAY_OUT"), b, 0o644); err != nil {
		fmt.Fprintln(os.Stderr, err)
		os.Exit(2)
	}
}

// workerReplay re-executes a replay file; exit status 0 with "REPRODUCED class" on stdout if the same class recurs.
func workerReplay(t *testing.T, path string) {
	b, err := os.ReadFile(path)
	if err != nil {
		fmt.Fprintln(os.Stderr, err)
		os.Exit(2)
	}
	var rf ReplayFile
	if err := json.Unmarshal(b, &rf); err != nil {
		fmt.Fprintln(os.Stderr, err)
		os.Exit(2)
	}
	p := registry[rf.Property]
	if p == nil {
		fmt.Fprintf(os.Stderr, "unknown property %q\n", rf.Property)
		os.Exit(2)
	}
	warmUp(t, p, rf.Seed)
	rep := p.Run(t, rf.Seed, rf.Mask)
	for i := 0; p.ExtOracle && !hasClass(rep, rf.Class) && i < 4; i++ {
		again := p.Run(t, rf.Seed, rf.Mask)
		if again.Steps != rep.Steps || again.Sig != rep.Sig {
			fmt.Printf("NOT-REPRODUCED property=%s class=%s seed=%d: the execution itself differs (%d/%d steps)\n", rf.Property, rf.Class, rf.Seed, rep.Steps, again.Steps)
			return
		}
		rep = again
	}
	if hasClass(rep, rf.Class) {
		fmt.Printf("REPRODUCED property=%s class=%s seed=%d steps=%d\n", rf.Property, rf.Class, rf.Seed, rep.Steps)
		for _, f := range rep.Failures {
			fmt.Println("  " + f)
		}
		if os.Getenv("VERIF_TRACE") != "" {
			fmt.Println(rep.Sample)
		}
		return
	}
	fmt.Printf("NOT-REPRODUCED property=%s class=%s seed=%d got=%v\n", rf.Property, rf.Class, rf.Seed, rep.Classes)
}

func sortStrings(s []string) { sort.Strings(s) }

// workerMemLimit is the memory obtained from the OS above which a batch worker asks to be replaced.
const workerMemLimit = 1200 << 20

func isThorough() bool { return os.Getenv("VERIF_TIER") == "thorough" }
