package props

import (
	"fmt"
	"strings"
	"testing"

	erpc "github.com/henrylee2cn/erpc/v6"

	"simrt"
	"verif/simnet"
	"verif/world"
)

// C12 - transfer-filter pipes invert exactly; the integrity filter detects change.
//
// Calls and pushes with pipes over the registered filter ids (gzip at three levels, md5; repeats; length
// 0-8, up to 40 in the thorough tier) and payloads that are empty, one byte, highly compressible,
// incompressible or large flow between two real peers over raw, json, pb, thrift-binary, http (gzip
// only) and the websocket sub-protocols, several at once (the filters use pooled buffers).
// Faults: one byte of a frame is altered in flight inside the filtered region (request or reply) when
// the pipe contains md5; a frame is altered to name an unregistered filter id.
// Oracle: no fault - the handler sees the exact payload, the reply arrives through the caller's pipe
// (observed by a client-side hook on the reply header) and the caller gets the exact result; altered
// frame - the receiver never hands over altered data as OK; unregistered id - refused, no handler runs.

func init() { register(&Prop{ID: "C12", Run: runC12}) }

func runC12(t *testing.T, seed uint64, m *Mask) *Report {
	sc, nc, r := swarm(seed, m)
	opt := world.Options{Seed: seed, Sim: sc, Net: nc}
	thorough := isThorough()
	protos := []string{"raw", "json", "pb", "thrift-binary", "http", "ws-json", "ws-pb"}
	proto := protos[r.Intn(len(protos))]
	ws := world.IsWS(proto)
	fault := "none"
	if proto == "raw" || proto == "json" || proto == "pb" {
		fault = []string{"none", "none", "corrupt_request", "corrupt_reply", "bad_filter_id"}[r.Intn(5)]
	}
	if ws && r.Chance(0.25) {
		fault = "ws_bad_filter_id"
	}
	if m.faultDropped(0) {
		fault = "none"
	}
	if fault == "ws_bad_filter_id" {
		return runC12WS(t, seed, m, opt, proto, r)
	}
	n := 1 + r.Intn(6)
	if fault != "none" {
		n = 1
	}
	// a message size limit with payloads that are small on the wire (gzip first in the pipe, highly compressible)
	// but larger than the limit once restored: the limit is about what travels, the payload must come back whole
	smallLimit := fault == "none" && !ws && proto != "http" && proto != "thrift-binary" && r.Chance(0.12)
	if smallLimit {
		opt.Limit = uint32(1500 + r.Intn(2500))
	}
	filters := []byte{world.FGzip1, world.FGzip5, world.FGzip9, world.FMd5}
	var ops []*world.Op
	for i := 0; i < n; i++ {
		op := world.GenOp(r, i, seed, "raw")
		if proto == "http" && op.Kind == "push" {
			op.Kind = "call"
			if op.Route == "note" {
				op.Route = "echo"
			} else {
				op.Route = "plain"
			}
		}
		if op.Kind == "push" {
			if op.Route != "note" && op.Route != "note_plain" {
				op.Route = "note"
			}
		}
		if proto == "http" && op.Codec == 't' {
			op.Codec = 'j'
		}
		if proto == "http" || proto == "ws-json" || proto == "ws-pb" {
			op.AcceptCodec = 0 // the http mapping has no content type for every codec; not the subject here
		}
		if fault == "none" && op.Kind != "push" && r.Chance(0.12) {
			// the handler's result cannot be encoded: the first reply write fails and the framework answers
			// with a fall-back error reply, which is a reply to this call like any other
			op.Route = "/std/weird"
		}
		// payload classes
		switch r.Intn(5) {
		case 0:
			op.Data = ""
		case 1:
			op.Data = "x"
		case 2:
			op.Data = strings.Repeat("ab", 500+r.Intn(3000))
		case 3:
			op.Data = world.GenString(r, 200+r.Intn(2000), "abcdefghijklmnopqrstuvwxyzABCDEFGHIJKLMNOPQRSTUVWXYZ0123456789")
		case 4:
			op.Data = world.GenString(r, 20000+r.Intn(50000), "abcdefghijklmnopqrstuvwxyz0123456789")
		}
		if nc.SegMode == 2 && len(op.Data) > 3000 {
			op.Data = op.Data[:3000]
		}
		maxLen := 8
		if thorough {
			maxLen = 40
		}
		op.Pipe = nil
		k := r.Intn(maxLen + 1)
		if r.Chance(0.04) {
			// the boundaries of the one-byte pipe length, up to the documented maximum of 255 filters
			k = []int{127, 128, 254, 255}[r.Intn(4)]
			if len(op.Data) > 300 {
				op.Data = op.Data[:300]
			}
		}
		for ; k > 0; k-- {
			if len(op.Pipe) >= 12 {
				op.Pipe = append(op.Pipe, world.FMd5) // long pipes: mostly the cheap filter
				continue
			}
			op.Pipe = append(op.Pipe, filters[r.Intn(len(filters))])
		}
		switch {
		case proto == "http":
			if len(op.Pipe) > 0 {
				op.Pipe = []byte{[]byte{world.FGzip1, world.FGzip5, world.FGzip9}[r.Intn(3)]}
			}
		case fault == "corrupt_request" || fault == "corrupt_reply":
			if len(op.Pipe) > 254 {
				op.Pipe = op.Pipe[:254]
			}
			op.Pipe = append(op.Pipe, world.FMd5)
			if r.Chance(0.5) {
				op.Pipe = append([]byte{world.FMd5}, op.Pipe[:len(op.Pipe)-1]...)
			}
			op.Kind = "call"
			if op.Route == "note" {
				op.Route = "echo"
			} else if op.Route == "note_plain" {
				op.Route = "plain"
			}
		case fault == "bad_filter_id":
			if len(op.Pipe) == 0 {
				op.Pipe = []byte{world.FGzip5}
			}
		}
		if smallLimit {
			op.Route, op.Codec = "echo", 'j'
			if op.Kind == "push" {
				op.Route = "note"
			}
			op.Data = strings.Repeat("ab", int(opt.Limit)/2+r.Intn(int(opt.Limit)))
			op.Pipe = []byte{[]byte{world.FGzip1, world.FGzip5, world.FGzip9}[r.Intn(3)]}
			if r.Chance(0.3) {
				op.Pipe = append(op.Pipe, world.FMd5)
			}
			op.AcceptCodec = 0
		}
		op.HYield = r.Intn(3)
		ops = append(ops, op)
	}
	flipAt, flipBit := r.Intn(1<<20), uint(r.Intn(8))
	rep := &Report{NOps: len(ops)}
	if fault != "none" {
		rep.NFaults = 1
	}
	rep.Cell = fmt.Sprintf("%s,fault=%s,limit=%d", proto, fault, opt.Limit)

	out := world.Run(t, opt, func(e *world.Env) {
		e.AllowUnknownArgs = fault != "none"
		for _, op := range ops {
			if m.opDropped(op.Idx) {
				op.Dropped = true
			} else {
				e.OpByTag[op.Tag] = op
			}
		}
		// client-side hook: which pipe did the reply arrive through?
		replyPipe := map[int32]string{}
		tap := &pipeTap{fn: func(seq int32, ids []byte) { replyPipe[seq] = fmt.Sprint(ids) }}
		cliPlugins := []erpc.Plugin{tap}
		if ws {
			cliPlugins = append([]erpc.Plugin{world.WSClientPlugin()}, cliPlugins...)
		}
		srv := e.NewPeer("srv", erpc.PeerConfig{})
		cli := e.NewPeer("cli", erpc.PeerConfig{}, cliPlugins...)
		rt := e.RegisterStd(srv)
		pf := world.ProtoFunc(proto)
		var sess erpc.Session
		var ca *simnet.Conn
		if ws {
			e.ServeWS(srv, "10.9.0.1:9000", proto)
			var st *erpc.Status
			sess, st = cli.Dial("10.9.0.1:9000", pf)
			if !st.OK() {
				e.Fail("infra-dial-failed", "ws dial: %v", st)
				return
			}
			ca = e.Net.Conns[len(e.Net.Conns)-1]
		} else {
			sess, _, ca, _ = e.ServePair(cli, srv, pf, pf)
		}
		applied := ""
		switch fault {
		case "corrupt_request", "corrupt_reply", "bad_filter_id":
			conn := ca
			if fault == "corrupt_reply" {
				conn = ca.Peer
			}
			conn.MutateWrite = func(k int, b []byte) bool {
				if len(b) < 8 {
					return false
				}
				npipe := int(b[4])
				if fault == "bad_filter_id" {
					if npipe == 0 {
						return true
					}
					b[5+flipAt%npipe] = 0x7A // not a registered filter id
					applied = fmt.Sprintf("filter id at index %d of %d replaced by 0x7A", flipAt%npipe, npipe)
					return true
				}
				lo := 5 + npipe
				if lo >= len(b) {
					return true
				}
				off := lo + flipAt%(len(b)-lo)
				b[off] ^= 1 << flipBit
				applied = fmt.Sprintf("byte %d of %d (filtered region starts at %d) bit %d flipped", off, len(b), lo, flipBit)
				return true
			}
		}
		done := 0
		live := 0
		for _, op := range ops {
			if op.Dropped {
				continue
			}
			live++
			op := op
			simrt.GoNamed("caller", func() { e.Issue(sess, rt, op, nil); done++ })
		}
		simrt.WaitCond(func() bool { return done == live })
		simrt.WaitQuiescent()
		e.CheckSettled("C12/task-stuck-at-quiescence", "proto="+proto)
		seenArg := map[string]string{}
		for _, ev := range e.Obs.Handlers {
			if !ev.Exit {
				seenArg[world.TagOf(ev.Arg)] = ev.Arg
			}
		}
		for _, op := range ops {
			if op.Dropped {
				continue
			}
			info := fmt.Sprintf("proto=%s codec=%q pipe=%v data=%dB kind=%s fault=%s %s", proto, op.Codec, op.Pipe, len(op.Data), op.Kind, fault, applied)
			switch fault {
			case "none":
				if op.Route == "/std/weird" {
					if got, seen := replyPipe[op.Seq]; seen && got != fmt.Sprint(op.Pipe) && !(len(op.Pipe) == 0 && got == "[]") {
						e.Fail("C12/reply-not-through-callers-pipe", "op %s (%s, fall-back reply after an unencodable result): the reply arrived through pipe %s", op.Tag, info, got)
					}
					continue
				}
				if !op.OK {
					e.Fail("C12/pipe-roundtrip-failed", "op %s (%s): %d %q %q", op.Tag, info, op.Code, op.Msg, op.Cause)
					continue
				}
				if got, ok := seenArg[op.Tag]; !ok || got != world.ArgString(op) {
					e.Fail("C12/handler-payload-differs", "op %s (%s): handler saw %d bytes, sent %d (seen=%v)", op.Tag, info, len(got), len(world.ArgString(op)), ok)
				}
				if op.Kind != "push" {
					if op.Result.Tag != op.Tag || op.Result.Data != world.ExpectData(op) {
						e.Fail("C12/result-differs", "op %s (%s): result has %d bytes of data, expected %d", op.Tag, info, len(op.Result.Data), len(world.ExpectData(op)))
					}
					if got := replyPipe[op.Seq]; got != fmt.Sprint(op.Pipe) && !(len(op.Pipe) == 0 && got == "[]") {
						e.Fail("C12/reply-not-through-callers-pipe", "op %s (%s): the reply arrived through pipe %s", op.Tag, info, got)
					}
				}
			case "corrupt_request", "corrupt_reply":
				if applied == "" {
					continue
				}
				if op.OK && (op.Result.Tag != op.Tag || op.Result.Data != world.ExpectData(op)) {
					e.Fail("C12/altered-payload-delivered-ok", "op %s (%s): the caller got OK with altered data", op.Tag, info)
				}
				if got, ok := seenArg[op.Tag]; ok && got != world.ArgString(op) {
					e.Fail("C12/altered-payload-delivered-ok", "op %s (%s): the handler was given altered data", op.Tag, info)
				}
				for tag, arg := range seenArg {
					if e.OpByTag[tag] == nil {
						e.Fail("C12/altered-payload-delivered-ok", "op %s (%s): a handler was given data nobody sent: %.60q", op.Tag, info, arg)
					}
				}
			case "bad_filter_id":
				if applied == "" {
					continue
				}
				if op.OK && op.Kind != "push" {
					e.Fail("C12/unregistered-filter-passed", "op %s (%s): completed OK", op.Tag, info)
				}
				if len(seenArg) > 0 {
					e.Fail("C12/unregistered-filter-passed", "op %s (%s): a handler ran", op.Tag, info)
				}
			}
		}
		e.CloseAll()
	})
	rep.Sample = sampleOps(ops, 3)
	return finish(rep, out)
}

type pipeTap struct {
	fn func(seq int32, ids []byte)
}

func (p *pipeTap) Name() string { return "pipe-tap" }
func (p *pipeTap) PostReadReplyHeader(c erpc.ReadCtx) *erpc.Status {
	p.fn(c.Input().Seq(), append([]byte(nil), c.Input().XferPipe().IDs()...))
	return nil
}

// runC12WS: a websocket frame whose sub-protocol header names an unregistered filter id must be refused by
// the receiving protocol, not unpacked with the filter skipped.  The frame is produced by the real Pack with
// the md5 filter and the id is rewritten in flight (server-to-client frames are not masked).
func runC12WS(t *testing.T, seed uint64, m *Mask, opt world.Options, proto string, r *simrt.Rand) *Report {
	rep := &Report{NOps: 1, NFaults: 1}
	rep.Cell = proto + ",fault=ws_bad_filter_id"
	body := []byte(world.GenString(r, 1+r.Intn(200), "abcdefghij0123456789"))
	out := world.Run(t, opt, func(e *world.Env) {
		ca, cb := e.Net.Pair()
		cliEnd, srvEnd := world.NewWSPair(e, ca, cb, proto)
		if cliEnd == nil {
			e.Fail("infra-ws-setup", "websocket pair could not be established")
			return
		}
		patched := false
		cb.MutateWrite = func(k int, b []byte) bool {
			var pat, rep []byte
			if proto == "ws-json" {
				pat, rep = []byte(`"xferPipe":[109]`), []byte(`"xferPipe":[122]`)
			} else {
				pat, rep = []byte{0x3a, 0x01, 0x6d}, []byte{0x3a, 0x01, 0x7a}
			}
			if i := strings.LastIndex(string(b), string(pat)); i >= 0 {
				copy(b[i:], rep)
				patched = true
				return true
			}
			return false
		}
		var got *c05Msg
		var rerr error
		done := false
		simrt.GoNamed("ws-reader", func() {
			got, _, rerr = c05Recv(cliEnd, proto)
			done = true
		})
		mm := &c05Msg{Seq: 7, Mtype: erpc.TypeReply, Method: "", Codec: 'j', Body: body, Pipe: []byte{world.FMd5}}
		if err := c05Send(srvEnd, proto, mm); err != nil {
			e.Fail("infra-ws-send", "send: %v", err)
		}
		simrt.WaitQuiescent()
		if !patched {
			e.Probe("ws-filter-id-not-located")
		} else if done && rerr == nil && got != nil {
			e.Fail("C12/unregistered-filter-passed", "proto=%s: a frame naming filter id 122 (not registered) was unpacked without error; body delivered: %d bytes (sent %d before filtering), pipe seen by the receiver %v", proto, len(got.Body), len(body), got.Pipe)
		} else {
			e.Probe("ws-unregistered-filter-refused")
		}
		ca.Close()
		cb.Close()
	})
	rep.Sample = rep.Cell
	return finish(rep, out)
}
