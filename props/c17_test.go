package props

import (
	"bytes"
	"fmt"
	"strings"
	"testing"
	"time"

	erpc "github.com/henrylee2cn/erpc/v6"
	"github.com/henrylee2cn/erpc/v6/plugin/secure"

	"simrt"
	"verif/simnet"
	"verif/world"
)

// C17 - secure plugin: bodies are encrypted on the wire and restored end to end.
//
// Both peers carry the shipped secure plugin; keys are equal or different, 16/24/32 bytes; calls and
// pushes carry the secure marker, the accept-secure marker (true/false/absent) or neither; secure and plain
// messages share one session and run concurrently (swap entries are per context); payloads are
// high-entropy tagged strings of 24+ characters so that a substring search of the wire tap is meaningful;
// all stream protocols with codecs able to carry the envelope.  One sub-space adds a redial-enabled client
// whose connection is cut while secure pushes and calls are being issued (the pre-write hook runs once per
// message, not once per write attempt).
// Oracle: equal keys - handler argument and caller result equal the originals; the wire contains neither the
// request plaintext of a message that must be encrypted nor the reply plaintext when the reply must be
// encrypted; unmarked messages travel in clear; different keys - no handler entry, non-OK status with the
// plugin's code.

func init() { register(&Prop{ID: "C17", Run: runC17}) }

type c17Op struct {
	op       *world.Op
	secure   bool
	accept   string // "", "true", "false"
	replyEnc int    // 1 must be encrypted, 0 must be clear, -1 not judged
	// mismatch: the argument decrypts fine but does not fit the handler's argument type (a field of the wrong
	// JSON type): the call fails, and the plaintext still must not travel in clear in either direction
	mismatch bool
}

// c17Odd has Payload's fields with one of another JSON type.
type c17Odd struct {
	Tag  string `json:"tag"`
	Data string `json:"data"`
	N    string `json:"n"`
}

func runC17(t *testing.T, seed uint64, m *Mask) *Report {
	sc, nc, r := swarm(seed, m)
	opt := world.Options{Seed: seed, Sim: sc, Net: nc}
	proto := []string{"raw", "json", "pb", "thrift-binary", "http"}[r.Intn(5)]
	keyLen := []int{16, 24, 32}[r.Intn(3)]
	sameKey := r.Chance(0.75)
	redial := sameKey && proto != "http" && r.Chance(0.25)
	keyA := world.GenString(r, keyLen, "abcdefghijklmnopqrstuvwxyz0123456789")
	keyB := keyA
	if !sameKey {
		keyB = world.GenString(r, []int{16, 24, 32}[r.Intn(3)], "ABCDEFGHIJKLMNOPQRSTUVWXYZ0123456789")
	}
	const statCode = 4170
	n := 1 + r.Intn(6)
	var ops []*c17Op
	for i := 0; i < n; i++ {
		op := world.GenOp(r, i, seed, "raw")
		op.Pipe = nil
		op.Route = "echo"
		if op.Kind == "push" {
			op.Route = "note"
			if proto == "http" {
				op.Kind = "call"
				op.Route = "echo"
			}
		}
		op.Codec = []byte{'j', 'p'}[r.Intn(2)]
		op.AcceptCodec = 0 // the reply must use a codec able to carry the envelope
		op.Data = world.GenString(r, 24+r.Intn(60), "abcdefghijklmnopqrstuvwxyzABCDEFGHIJKLMNOPQRSTUVWXYZ0123456789")
		op.MetaK, op.MetaV = "Mk", world.GenString(r, 6, "abcdef0123")
		op.HYield = r.Intn(5)
		c := &c17Op{op: op, secure: r.Chance(0.6), accept: []string{"", "", "true", "false"}[r.Intn(4)]}
		switch {
		case c.secure && c.accept == "false":
			c.replyEnc = -1 // the caller asked for a clear reply to an encrypted request: not judged
		case c.secure, c.accept == "true":
			c.replyEnc = 1
		default:
			c.replyEnc = 0
		}
		if c.secure && sameKey && !redial && op.Kind != "push" && r.Chance(0.1) {
			c.mismatch, op.Codec, c.replyEnc = true, 'j', -1
		}
		ops = append(ops, c)
	}
	concurrent := r.Chance(0.6)
	cutYield := r.Intn(40)
	rep := &Report{NOps: len(ops)}
	if redial {
		rep.NFaults = 1
	}
	rep.Cell = fmt.Sprintf("%s,samekey=%v,keylen=%d,redial=%v", proto, sameKey, keyLen, redial)

	out := world.Run(t, opt, func(e *world.Env) {
		for _, c := range ops {
			if m.opDropped(c.op.Idx) {
				c.op.Dropped = true
			} else {
				e.OpByTag[c.op.Tag] = c.op
			}
		}
		pf := world.ProtoFunc(proto)
		srv := e.NewPeer("srv", erpc.PeerConfig{}, secure.NewPlugin(statCode, keyB))
		rt := e.RegisterStd(srv)
		ccfg := erpc.PeerConfig{}
		if redial {
			ccfg.RedialTimes, ccfg.RedialInterval = 3, 10*time.Millisecond
		}
		cli := e.NewPeer("cli", ccfg, secure.NewPlugin(statCode, keyA))
		var sess erpc.Session
		var conns []*simnet.Conn
		if redial {
			e.Serve(srv, "10.9.0.1:9000", pf)
			var st *erpc.Status
			sess, st = cli.Dial("10.9.0.1:9000", pf)
			if !st.OK() {
				e.Fail("infra-dial-failed", "dial: %v", st)
				return
			}
		} else {
			var ca *simnet.Conn
			var ssrv erpc.Session
			sess, ssrv, ca, _ = e.ServePair(cli, srv, pf, pf)
			conns = append(conns, ca)
			// applications (and the heartbeat / overload plugins) keep data of their own in the session swap
			if e.Gen.Chance(0.4) {
				ssrv.Swap().Store("user", "alice")
				e.Probe("c17-session-swap-in-use")
			}
		}
		if e.Gen.Chance(0.4) {
			sess.Swap().Store("user", "bob")
		}
		run := func(c *c17Op) {
			op := c.op
			var st []erpc.MessageSetting
			st = append(st, erpc.WithBodyCodec(op.Codec), erpc.WithAddMeta(op.MetaK, op.MetaV))
			if c.secure {
				st = append(st, secure.WithSecureMeta())
			}
			if c.accept != "" {
				st = append(st, secure.WithAcceptSecureMeta(c.accept == "true"))
			}
			simrt.Yield()
			op.Issued = true
			arg := &world.Payload{Tag: op.Tag, Data: op.Data, N: op.N}
			if op.Kind == "push" {
				stt := sess.Push(rt.Note, arg, st...)
				op.Done, op.OK = true, stt.OK()
				if !stt.OK() {
					op.Code, op.Msg = stt.Code(), stt.Msg()
				}
				return
			}
			res := new(world.Payload)
			var cmd erpc.CallCmd
			if c.mismatch {
				cmd = sess.Call(rt.Echo, &c17Odd{Tag: op.Tag, Data: op.Data, N: "not-a-number"}, res, st...)
				simrt.Yield()
				stt := cmd.Status()
				op.Done, op.OK = true, stt.OK()
				if !stt.OK() {
					op.Code, op.Msg = stt.Code(), stt.Msg()
				}
				return
			}
			if op.Idx%7 == 5 && !redial {
				// a caller that does not want the result passes nil: the call must still complete
				cmd = sess.Call(rt.Echo, arg, nil, st...)
				simrt.Yield()
				op.Done, op.OK = true, cmd.Status().OK()
				if op.OK {
					*res = world.Payload{Tag: op.Tag, Data: world.ExpectData(op), N: op.N + 1} // nothing to compare
				}
				e.Probe("c17-call-with-nil-result")
			} else {
				cmd = sess.Call(rt.Echo, arg, res, st...)
				simrt.Yield()
			}
			stt := cmd.Status()
			op.Done, op.OK = true, stt.OK()
			op.Result, op.ResultStr = *res, res.String()
			if !stt.OK() {
				op.Code, op.Msg = stt.Code(), stt.Msg()
				if cz := stt.Cause(); cz != nil {
					op.Cause = cz.Error()
				}
			}
		}
		if redial {
			simrt.GoNamed("cutter", func() {
				simrt.YieldN(cutYield)
				for j := len(e.Net.Conns) - 1; j >= 0; j-- {
					if c := e.Net.Conns[j]; !c.IsClosed() && !c.IsBroken() {
						c.CutNow()
						break
					}
				}
			})
		}
		done, live := 0, 0
		for _, c := range ops {
			if c.op.Dropped {
				continue
			}
			live++
			c := c
			if concurrent {
				simrt.GoNamed("caller", func() { run(c); done++ })
			} else {
				run(c)
				done++
			}
		}
		simrt.WaitCond(func() bool { return done == live })
		// messages without content: a secure call with no argument, and a reply without a result that the caller
		// asked to be encrypted.  There is no plaintext to hide, but the key check applies all the same
		if !redial {
			for j := 0; j < e.Gen.Intn(3); j++ {
				var res []byte
				if sameKey && e.Gen.Chance(0.33) {
					// an application buffer (with spare capacity, as a bytes.Buffer or an append-built slice has) sent
					// in two secure calls: the plugin must not touch the caller's bytes
					buf := make([]byte, 0, 160)
					buf = append(buf, world.GenString(e.Gen, 20+e.Gen.Intn(60), "abcdefghijklmnopqrstuvwxyz0123456789;=")...)
					orig := string(buf)
					for k := 0; k < 2; k++ {
						var arg interface{} = buf
						if e.Gen.Chance(0.5) {
							arg = &buf
						}
						cmd := sess.Call(rt.Blank, arg, &res, erpc.WithBodyCodec('j'), secure.WithSecureMeta())
						if want := fmt.Sprintf("blank:%d:%s", len(orig), orig); !cmd.StatusOK() || string(res) != want {
							e.Fail("C17/handler-argument-differs", "secure call #%d with the same application buffer (%s): %v, the handler saw %q, the caller sent %q", k+1, rep.Cell, cmd.Status(), res, orig)
						}
						if string(buf) != orig {
							e.Fail("C17/caller-buffer-altered", "secure call #%d (%s): the caller's own argument bytes were changed to %q", k+1, rep.Cell, buf)
						}
					}
					e.Probe("c17-same-buffer-sent-twice")
					continue
				}
				if e.Gen.Chance(0.5) {
					ran := e.Probes["blank-handler-ran"]
					var arg interface{}
					if e.Gen.Chance(0.5) {
						arg = []byte{}
					}
					cmd := sess.Call(rt.Blank, arg, &res, erpc.WithBodyCodec('j'), secure.WithSecureMeta())
					stt := cmd.Status()
					if sameKey && (!stt.OK() || string(res) != "blank:0:") {
						e.Fail("C17/secure-message-failed", "secure call without an argument (%s): %v, result %q", rep.Cell, stt, res)
					}
					if !sameKey {
						if e.Probes["blank-handler-ran"] != ran {
							e.Fail("C17/handler-ran-with-wrong-key", "secure call without an argument (%s): the handler was invoked although the keys differ", rep.Cell)
						}
						if stt.OK() || stt.Code() != statCode {
							e.Fail("C17/wrong-key-status", "secure call without an argument (%s): caller got %v, want the plugin's code %d", rep.Cell, stt, statCode)
						}
					}
					e.Probe("c17-secure-call-without-argument")
				} else {
					arg := []byte("void-arg")
					cmd := sess.Call(rt.Void, &arg, &res, erpc.WithBodyCodec('j'), secure.WithAcceptSecureMeta(true))
					stt := cmd.Status()
					if sameKey && (!stt.OK() || len(res) != 0) {
						e.Fail("C17/secure-message-failed", "plain call with an encrypted reply without a result (%s): %v, result %q", rep.Cell, stt, res)
					}
					if !sameKey && stt.OK() {
						e.Fail("C17/wrong-key-status", "plain call, reply without a result encrypted under a different key (%s): the caller got OK", rep.Cell)
					}
					e.Probe("c17-secure-reply-without-result")
				}
			}
		}
		simrt.WaitQuiescent()
		e.CheckSettled("C17/task-stuck-at-quiescence", rep.Cell)
		// wire taps of every connection between the two peers, both directions
		var c2s, s2c []byte
		if redial {
			for _, c := range e.Net.Conns {
				conns = append(conns, c)
			}
		}
		for _, c := range conns {
			c2s = append(c2s, c.Sent()...)
			s2c = append(s2c, c.Peer.Sent()...)
		}
		seen := map[string]string{}
		for _, ev := range e.Obs.Handlers {
			if !ev.Exit {
				seen[world.TagOf(ev.Arg)] = ev.Arg
			}
		}
		for _, c := range ops {
			op := c.op
			if op.Dropped || !op.Issued {
				continue
			}
			info := fmt.Sprintf("%s kind=%s codec=%q secure=%v accept=%q", rep.Cell, op.Kind, op.Codec, c.secure, c.accept)
			reqPlain := bytes.Contains(c2s, []byte(op.Data))
			replyPlain := bytes.Contains(s2c, []byte(world.Transform(op.Data)))
			if !op.Done {
				e.Fail("C17/call-never-completes", "op %s (%s) not complete at quiescence", op.Tag, info)
				continue
			}
			if c.secure && reqPlain {
				e.Fail("C17/secure-request-in-clear-on-the-wire", "op %s (%s): the plaintext of the argument is in the client-to-server byte stream", op.Tag, info)
			}
			if c.secure && bytes.Contains(s2c, []byte(op.Data)) {
				e.Fail("C17/secure-request-in-clear-on-the-wire", "op %s (%s): the plaintext of the argument travels back in clear in the server-to-client byte stream", op.Tag, info)
			}
			if c.mismatch {
				if op.OK {
					e.Fail("C17/unexpected-status", "op %s (%s): an argument of the wrong shape was accepted", op.Tag, info)
				}
				if _, ran := seen[op.Tag]; ran {
					e.Fail("C17/handler-argument-differs", "op %s (%s): the handler ran although its argument could not be decoded", op.Tag, info)
				}
				continue
			}
			if !sameKey && c.secure {
				if _, ran := seen[op.Tag]; ran {
					e.Fail("C17/handler-ran-with-wrong-key", "op %s (%s): the handler was invoked although the keys differ", op.Tag, info)
				}
				if op.Kind != "push" && (op.OK || op.Code != statCode) {
					e.Fail("C17/wrong-key-status", "op %s (%s): caller got ok=%v (%d,%q,%q), want the plugin's code %d", op.Tag, info, op.OK, op.Code, op.Msg, op.Cause, statCode)
				}
				continue
			}
			if redial && !op.OK {
				if op.Code != erpc.CodeConnClosed && op.Code != erpc.CodeWriteFailed && op.Code != erpc.CodeDialFailed {
					e.Fail("C17/unexpected-status", "op %s (%s): %d %q %q", op.Tag, info, op.Code, op.Msg, op.Cause)
				}
				continue
			}
			if !sameKey && !c.secure && c.accept == "true" && op.Kind != "push" {
				// clear request, encrypted reply under another key: the caller must not get a result
				if op.OK {
					e.Fail("C17/wrong-key-status", "op %s (%s): the reply was encrypted under a different key but the caller got OK", op.Tag, info)
				}
				continue
			}
			if !op.OK {
				e.Fail("C17/secure-message-failed", "op %s (%s): %d %q %q", op.Tag, info, op.Code, op.Msg, op.Cause)
				continue
			}
			if got, ran := seen[op.Tag]; ran && got != world.ArgString(op) {
				e.Fail("C17/handler-argument-differs", "op %s (%s): handler saw %q", op.Tag, info, got)
			} else if !ran && !redial {
				e.Fail("C17/message-lost", "op %s (%s): completed OK but no handler saw it", op.Tag, info)
			}
			if !c.secure && !reqPlain {
				e.Fail("C17/unmarked-request-not-in-clear", "op %s (%s): an unmarked message should pass unchanged, but its plaintext is not on the wire", op.Tag, info)
			}
			if op.Kind == "push" {
				continue
			}
			if op.Result.Tag != op.Tag || op.Result.Data != world.ExpectData(op) {
				e.Fail("C17/result-differs", "op %s (%s): result %q", op.Tag, info, op.ResultStr)
			}
			switch c.replyEnc {
			case 1:
				if replyPlain {
					e.Fail("C17/reply-in-clear-on-the-wire", "op %s (%s): the reply had to be encrypted but its plaintext is in the server-to-client byte stream", op.Tag, info)
				}
			case 0:
				if !replyPlain {
					e.Fail("C17/unmarked-reply-not-in-clear", "op %s (%s): nothing asked for an encrypted reply, but its plaintext is not on the wire", op.Tag, info)
				}
			}
		}
		e.CloseAll()
	})
	var sm []string
	for _, c := range ops {
		sm = append(sm, fmt.Sprintf("%s/sec=%v/acc=%s", c.op.Kind, c.secure, c.accept))
	}
	rep.Sample = rep.Cell + ": " + strings.Join(sm, " ")
	return finish(rep, out)
}
