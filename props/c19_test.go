package props

import (
	"fmt"
	"sort"
	"strings"
	"testing"
	"time"

	erpc "github.com/henrylee2cn/erpc/v6"
	"github.com/henrylee2cn/erpc/v6/plugin/proxy"

	"simrt"
	"verif/simnet"
	"verif/world"
)

// C19 - the proxy plugin is transparent: the proxied result equals the direct result.
//
// client -> proxy peer (shipped proxy plugin, forwarder = a real session to the backend) -> backend with
// scripted handlers; every operation has a metamorphic twin sent by the same client directly to the backend
// in the same run.  Methods, bodies, body codecs, request and reply metadata, backend statuses, with and
// without a caller-supplied real-IP; several proxied calls in flight at once.  Faults: backend session
// closed before forwarding, backend connection cut while forwarding (request or reply half).
// Oracle: per proxied request exactly one backend invocation whose metadata is the caller's plus the real-IP
// iff absent; proxied outcome == direct outcome (status triple, body, reply metadata); a backend failure
// surfaces as 502 on that call only - calls that were not hit by the fault and the client<->proxy session are
// unaffected.

func init() { register(&Prop{ID: "C19", Run: runC19}) }

func runC19(t *testing.T, seed uint64, m *Mask) *Report {
	sc, nc, r := swarm(seed, m)
	opt := world.Options{Seed: seed, Sim: sc, Net: nc}
	proto := []string{"raw", "raw", "json", "pb", "thrift-binary"}[r.Intn(5)]
	n := 1 + r.Intn(6)
	fault := []string{"none", "none", "none", "backend_closed", "backend_cut"}[r.Intn(5)]
	if m.faultDropped(0) {
		fault = "none"
	}
	type pair struct{ via, direct *world.Op }
	var pairs []*pair
	for i := 0; i < n; i++ {
		op := world.GenOp(r, 2*i, seed, "raw")
		if len(op.Data) > 200 {
			op.Data = op.Data[:200]
		}
		if op.Kind == "async" {
			op.Kind = "call"
		}
		op.Pipe = nil
		switch r.Intn(6) {
		case 0:
			op.HCode, op.HStatus = int32(1000+r.Intn(500)), [3]string{"", "backend says no", "because " + op.Tag}
		case 1:
			op.HPanic, op.HPanicKind = true, op.Idx%6
		}
		op.HYield = r.Intn(6)
		if r.Chance(0.3) {
			op.HSleep = time.Duration(1+r.Intn(5)) * time.Millisecond
		}
		d := *op
		d.Idx = 2*i + 1
		d.Tag = op.Tag + "d"
		pairs = append(pairs, &pair{via: op, direct: &d})
	}
	withRealIP := r.Chance(0.3)
	concurrent := r.Chance(0.6)
	cutYield := r.Intn(60)
	slowP := []float64{0, 0.3, 0.8}[r.Intn(3)]
	// the proxy may name the sessions it accepts (an identify/auth plugin calling SetID): the caller's address is
	// still its network address
	named := r.Chance(0.4)
	rep := &Report{NOps: 2 * len(pairs)}
	if fault != "none" {
		rep.NFaults = 1
	}
	rep.Cell = fmt.Sprintf("%s,fault=%s,realip=%v,concurrent=%v,named=%v", proto, fault, withRealIP, concurrent, named)

	out := world.Run(t, opt, func(e *world.Env) {
		for _, p := range pairs {
			if m.opDropped(p.via.Idx) || m.opDropped(p.direct.Idx) {
				p.via.Dropped, p.direct.Dropped = true, true
				continue
			}
			e.OpByTag[p.via.Tag] = p.via
			e.OpByTag[p.direct.Tag] = p.direct
		}
		pf := world.ProtoFunc(proto)
		backend := e.NewPeer("backend", erpc.PeerConfig{})
		rt := e.RegisterStd(backend)
		var fwd erpc.Session
		var fwdConn *simnet.Conn
		pp := proxy.NewPlugin(func(*proxy.Label) proxy.Forwarder { return fwd })
		nSessNamed := 0
		prox := e.NewPeer("proxy", erpc.PeerConfig{}, &c07Namer{on: func() bool { return false }}, pp, &world.Slow{Env: e, P: slowP}, &c19Namer{on: func() bool { return named }, n: &nSessNamed})
		fwd, _, fwdConn, _ = e.ServePair(prox, backend, pf, pf)
		cli := e.NewPeer("cli", erpc.PeerConfig{})
		direct, _, _, _ := e.ServePair(cli, backend, pf, pf)
		via, _, _, _ := e.ServePair(cli, prox, pf, pf)
		callerAddr := via.LocalAddr().String()
		issue := func(sess erpc.Session, op *world.Op) {
			if withRealIP {
				// a caller-supplied real IP travels as ordinary metadata
				op.MetaK, op.MetaV = erpc.MetaRealIP, "203.0.113.7"
			}
			e.Issue(sess, rt, op, nil)
		}
		switch fault {
		case "backend_closed":
			fwd.Close()
		case "backend_cut":
			simrt.GoNamed("cutter", func() { simrt.YieldN(cutYield); fwdConn.CutNow() })
		}
		done, live := 0, 0
		for _, p := range pairs {
			if p.via.Dropped {
				continue
			}
			p := p
			live += 2
			if concurrent {
				simrt.GoNamed("via", func() { issue(via, p.via); done++ })
				simrt.GoNamed("direct", func() { issue(direct, p.direct); done++ })
			} else {
				issue(via, p.via)
				issue(direct, p.direct)
				done += 2
			}
		}
		simrt.WaitCond(func() bool { return done == live })
		if fault == "none" {
			// calls without a body (nil argument), after calls with one: the proxy forwards exactly the
			// (empty) body it was given
			for j := 0; j < 1+e.Gen.Intn(3); j++ {
				var rv, rd []byte
				arg := []byte(nil)
				if e.Gen.Chance(0.3) {
					arg = []byte(world.GenString(e.Gen, 1+e.Gen.Intn(30), "KLMNOP"))
				}
				cv := via.Call(rt.Blank, arg, &rv, erpc.WithBodyCodec('s'))
				cd := direct.Call(rt.Blank, arg, &rd, erpc.WithBodyCodec('s'))
				if cv.Status().OK() != cd.Status().OK() || string(rv) != string(rd) {
					e.Fail("C19/proxied-differs-from-direct", "call with a %d-byte body (%s): via the proxy %v %q, directly %v %q", len(arg), rep.Cell, cv.Status(), rv, cd.Status(), rd)
				}
				e.Probe("c19-empty-body-calls")
			}
		}
		simrt.WaitQuiescent()
		e.CheckSettled("C19/task-stuck-at-quiescence", rep.Cell)
		inv := map[string][]world.HandlerEvent{}
		for _, ev := range e.Obs.Handlers {
			if !ev.Exit {
				inv[world.TagOf(ev.Arg)] = append(inv[world.TagOf(ev.Arg)], ev)
			}
		}
		trip := func(op *world.Op) string {
			if op.OK {
				return "OK"
			}
			return fmt.Sprintf("(%d,%q,%q)", op.Code, op.Msg, op.Cause)
		}
		normMeta := func(op *world.Op) string {
			var kv []string
			for k, v := range op.RMeta {
				kv = append(kv, k+"="+strings.ReplaceAll(v, op.Tag, "<tag>"))
			}
			sort.Strings(kv)
			return strings.Join(kv, "&")
		}
		if !via.Health() {
			e.Fail("C19/client-proxy-session-lost", "the session between the client and the proxy went down (%s)", rep.Cell)
		}
		for _, p := range pairs {
			if p.via.Dropped {
				continue
			}
			v, d := p.via, p.direct
			info := fmt.Sprintf("%s kind=%s route=%s codec=%q", rep.Cell, v.Kind, v.Route, v.Codec)
			if !v.Done || !d.Done {
				e.Fail("C19/call-never-completes", "op %s (%s): via done=%v direct done=%v", v.Tag, info, v.Done, d.Done)
				continue
			}
			nv := len(inv[v.Tag])
			if nv > 1 {
				e.Fail("C19/forwarded-more-than-once", "op %s (%s): the backend handler ran %d times", v.Tag, info, nv)
			}
			backendFailed := !v.OK && v.Code == erpc.CodeBadGateway
			if fault == "none" || !backendFailed {
				if fault == "none" && nv != 1 {
					e.Fail("C19/not-forwarded-exactly-once", "op %s (%s): the backend handler ran %d times", v.Tag, info, nv)
				}
				if v.Kind == "push" {
					// pushes have no reply to compare; the backend must have seen the same payload
					if nv == 1 && len(inv[d.Tag]) == 1 && strings.ReplaceAll(inv[v.Tag][0].Arg, v.Tag, "<t>") != strings.ReplaceAll(inv[d.Tag][0].Arg, d.Tag, "<t>") {
						e.Fail("C19/proxied-differs-from-direct", "op %s (%s): backend saw %q via the proxy and %q directly", v.Tag, info, inv[v.Tag][0].Arg, inv[d.Tag][0].Arg)
					}
				} else if fault == "none" || v.OK {
					if trip(v) != strings.ReplaceAll(trip(d), d.Tag, v.Tag) {
						e.Fail("C19/proxied-differs-from-direct", "op %s (%s): status via the proxy %s, directly %s", v.Tag, info, trip(v), trip(d))
					} else if v.OK && (v.Result.Data != d.Result.Data || v.Result.N != d.Result.N || v.Result.Tag != v.Tag) {
						e.Fail("C19/proxied-differs-from-direct", "op %s (%s): result via the proxy %q, directly %q", v.Tag, info, v.ResultStr, d.ResultStr)
					} else if v.OK && normMeta(v) != normMeta(d) {
						e.Fail("C19/proxied-differs-from-direct", "op %s (%s): reply metadata via the proxy %q, directly %q", v.Tag, info, normMeta(v), normMeta(d))
					}
				}
			}
			if fault != "none" && !v.OK && v.Kind != "push" && !backendFailed && trip(v) != strings.ReplaceAll(trip(d), d.Tag, v.Tag) {
				e.Fail("C19/backend-failure-not-502", "op %s (%s): status via the proxy %s (direct: %s)", v.Tag, info, trip(v), trip(d))
			}
			// what the backend saw: the caller's metadata plus the real IP iff absent
			if nv == 1 {
				meta := inv[v.Tag][0].Meta
				if withRealIP {
					if !world.MetaHas(meta, erpc.MetaRealIP, "203.0.113.7") || strings.Count(meta, erpc.MetaRealIP+"=") != 1 {
						e.Fail("C19/real-ip-wrong", "op %s (%s): the caller supplied a real IP; the backend saw metadata %q", v.Tag, info, meta)
					}
				} else {
					if v.MetaK != "" && !world.MetaHas(meta, v.MetaK, v.MetaV) {
						e.Fail("C19/request-metadata-lost", "op %s (%s): the backend saw metadata %q, the caller sent %s=%s", v.Tag, info, meta, v.MetaK, v.MetaV)
					}
					if !world.MetaHas(meta, erpc.MetaRealIP, callerAddr) {
						e.Fail("C19/real-ip-wrong", "op %s (%s): the backend saw metadata %q, expected %s=%s", v.Tag, info, meta, erpc.MetaRealIP, callerAddr)
					}
				}
			}
		}
		e.CloseAll()
	})
	var ops []*world.Op
	for _, p := range pairs {
		ops = append(ops, p.via)
	}
	rep.Sample = sampleOps(ops, 3)
	return finish(rep, out)
}

// c19Namer is a PostAccept plugin that names the sessions its peer accepts after their users.
type c19Namer struct {
	on func() bool
	n  *int
}

func (c *c19Namer) Name() string { return "c19-namer" }
func (c *c19Namer) PostAccept(s erpc.PreSession) *erpc.Status {
	if c.on() {
		*c.n++
		s.SetID(fmt.Sprintf("user-%d", 1000+*c.n))
	}
	return nil
}
