package props

import (
	"fmt"
	"strings"
	"testing"
	"time"

	erpc "github.com/henrylee2cn/erpc/v6"
	"github.com/henrylee2cn/erpc/v6/plugin/overloader"

	"simrt"
	"verif/simnet"
	"verif/world"
)

// C18 - the overload plugin never admits more than its connection and rate limits.
//
// Connection space: a server with overloader.New(MaxConn=N); histories of connect (admitted or rejected by
// the limiter, or rejected by an accept hook that runs before or after it), disconnect by each close path
// (client close, server close, cut), limit updates, with several connects and closes in flight at once
// (take/release interleave at the atomics).  Oracle: whenever a session becomes OK (status log) the number
// of OK sessions is <= the current limit; a rejected connection is closed and not indexed; after all sessions
// have ended exactly N fresh connections are admitted and the N+1th is rejected (catches leaked and doubly
// released slots).
// Rate space: MaxTotalQPS / per-handler QPS with a fake-clock refill interval; bursts of calls and pushes
// at drawn fake times, optional Update that lowers or raises the limit.  Oracle: in every window of fake
// time the number of handler entries is <= capacity + (refill+1) * (ticks in the window + 1), with the
// capacity in force for that window; a rejected call gets an error reply and no handler entry.

func init() { register(&Prop{ID: "C18", Run: runC18}) }

func runC18(t *testing.T, seed uint64, m *Mask) *Report {
	sc, nc, r := swarm(seed, m)
	sc.Horizon = time.Second
	nc.Jitter = 0
	opt := world.Options{Seed: seed, Sim: sc, Net: nc}
	proto := []string{"raw", "raw", "json", "pb"}[r.Intn(4)]
	if r.Chance(0.5) {
		return runC18Conn(t, seed, m, opt, proto, r)
	}
	return runC18Rate(t, seed, m, opt, proto, r)
}

func runC18Conn(t *testing.T, seed uint64, m *Mask, opt world.Options, proto string, r *simrt.Rand) *Report {
	N := int32(1 + r.Intn(4))
	kinds := []string{"connect", "connect", "connect", "connect_burst", "close_client", "close_server", "cut", "reject_before", "reject_after", "update", "close_burst", "rename"}
	n := 3 + r.Intn(14)
	type op struct {
		kind string
		a    int
	}
	var hist []op
	for i := 0; i < n; i++ {
		hist = append(hist, op{kinds[r.Intn(len(kinds))], r.Intn(1000)})
	}
	rep := &Report{NOps: len(hist)}
	rep.Cell = fmt.Sprintf("conn,%s,N=%d", proto, N)
	var trace []string

	out := world.Run(t, opt, func(e *world.Env) {
		e.AllowUnknownArgs = true
		limit := N
		ov := overloader.New(overloader.LimitConfig{MaxConn: N})
		rejectBefore, rejectAfter := false, false
		before := &world.Recorder{PName: "before", Env: e, Stages: map[string]bool{"PostAccept": true}, Verdict: func(stage string, _ byte, _ string, _ int32) *erpc.Status {
			if rejectBefore {
				rejectBefore = false
				return erpc.NewStatus(1501, "refused before the limiter", "")
			}
			return nil
		}}
		after := &world.Recorder{PName: "after", Env: e, Stages: map[string]bool{"PostAccept": true, "PostDisconnect": true}, Verdict: func(stage string, _ byte, _ string, _ int32) *erpc.Status {
			if stage == "PostAccept" && rejectAfter {
				rejectAfter = false
				return erpc.NewStatus(1502, "refused after the limiter", "")
			}
			return nil
		}}
		srv := e.NewPeer("srv", erpc.PeerConfig{}, before, ov, after)
		rt := e.RegisterStd(srv)
		pf := world.ProtoFunc(proto)
		e.Serve(srv, "10.9.0.1:9000", pf)
		cli := e.NewPeer("cli", erpc.PeerConfig{})
		// step invariant: count OK sessions of the server from the status log
		okCount, seenEv := 0, 0
		isSrv := func(s erpc.Session) bool { return s.Peer() == srv }
		e.Sched.OnStep = func(*simrt.Sched) {
			for ; seenEv < len(e.Obs.Status); seenEv++ {
				ev := e.Obs.Status[seenEv]
				if !isSrv(ev.Sess) {
					continue
				}
				if ev.To == 1 {
					okCount++
					if int32(okCount) > limit {
						e.Fail("C18/more-sessions-than-limit", "a session became OK while %d were OK already; the connection limit is %d | history: %s", okCount-1, limit, strings.Join(trace, " "))
					}
				} else if ev.From == 1 || (ev.From < 0 && (ev.To == 4 || ev.To == 2)) {
					if ev.From == 1 {
						okCount--
					}
				}
			}
		}
		type pairT struct {
			cs   erpc.Session
			conn *simnet.Conn
			live bool
		}
		var pairs []*pairT
		livePairs := func() []*pairT {
			var out []*pairT
			for _, p := range pairs {
				if p.live {
					out = append(out, p)
				}
			}
			return out
		}
		connect := func(tag string) (admitted bool) {
			s, st := cli.Dial("10.9.0.1:9000", pf)
			if !st.OK() {
				return false
			}
			var cc *simnet.Conn
			for _, c := range e.Net.Conns {
				if c.LocalAddr().String() == s.LocalAddr().String() {
					cc = c
				}
			}
			// the server may have refused after the TCP connect: a call tells
			opx := &world.Op{Idx: 9000 + len(pairs), Tag: fmt.Sprintf("T%x.%s%d", seed&0xffffff, tag, len(pairs)), Kind: "call", Route: "echo", Data: "d", MetaK: "Mk", MetaV: "v", Codec: 'j'}
			e.OpByTag[opx.Tag] = opx
			e.Issue(s, rt, opx, nil)
			p := &pairT{cs: s, conn: cc, live: opx.OK}
			pairs = append(pairs, p)
			if !opx.OK {
				s.Close()
			}
			return opx.OK
		}
		for i, h := range hist {
			if m.opDropped(i) {
				continue
			}
			trace = append(trace, h.kind)
			switch h.kind {
			case "connect":
				want := int32(len(livePairs())) < limit
				got := connect("c")
				if got != want {
					e.Fail("C18/admission-differs-from-model", "connect with %d live sessions and limit %d: admitted=%v | history: %s", len(livePairs())-b2i(got), limit, got, strings.Join(trace, " "))
				}
			case "connect_burst":
				k := 2 + h.a%3
				liveBefore := len(livePairs())
				done, adm := 0, 0
				for j := 0; j < k; j++ {
					simrt.GoNamed("dialer", func() {
						if connect("b") {
							adm++
						}
						done++
					})
				}
				simrt.WaitCond(func() bool { return done == k })
				wantAdm := int(limit) - liveBefore
				if wantAdm < 0 {
					wantAdm = 0
				}
				if wantAdm > k {
					wantAdm = k
				}
				if adm > wantAdm {
					e.Fail("C18/more-sessions-than-limit", "%d of %d concurrent connects were admitted with %d live sessions and limit %d | history: %s", adm, k, liveBefore, limit, strings.Join(trace, " "))
				}
			case "close_client", "close_server", "cut":
				lp := livePairs()
				if len(lp) == 0 {
					continue
				}
				p := lp[h.a%len(lp)]
				switch h.kind {
				case "close_client":
					p.cs.Close()
				case "close_server":
					if s := e.FindSession(srv, p.cs.LocalAddr().String()); s != nil {
						s.Close()
					}
				case "cut":
					if p.conn != nil {
						p.conn.CutNow()
					}
				}
				p.live = false
			case "rename":
				// the application names an admitted session (a login): its slot stays its slot
				if lp := livePairs(); len(lp) > 0 {
					p := lp[h.a%len(lp)]
					if s := e.FindSession(srv, p.cs.LocalAddr().String()); s != nil {
						s.SetID(fmt.Sprintf("user-%d-%d", i, h.a%7))
					}
				}
			case "close_burst":
				lp := livePairs()
				done := 0
				for _, p := range lp {
					p := p
					p.live = false
					simrt.GoNamed("closer", func() { p.cs.Close(); done++ })
				}
				simrt.WaitCond(func() bool { return done == len(lp) })
			case "reject_before", "reject_after":
				if h.kind == "reject_before" {
					rejectBefore = true
				} else {
					rejectAfter = true
				}
				if connect("r") {
					e.Fail("C18/hook-rejection-ignored", "an accept hook refused the connection but it is served | history: %s", strings.Join(trace, " "))
				}
				rejectBefore, rejectAfter = false, false
			case "update":
				limit = int32(1 + h.a%5)
				ov.Update(overloader.LimitConfig{MaxConn: limit})
				trace[len(trace)-1] = fmt.Sprintf("update=%d", limit)
			}
			simrt.WaitQuiescent()
			// the index lists exactly the admitted, still living sessions
			if nIdx, nLive := srv.CountSession(), len(livePairs()); nIdx != nLive {
				e.Fail("C18/index-differs-from-admitted", "server lists %d sessions, %d are admitted and alive | history: %s", nIdx, nLive, strings.Join(trace, " "))
			}
		}
		// slot conservation: end every session, then exactly `limit` fresh connections must fit
		for _, p := range livePairs() {
			p.cs.Close()
			p.live = false
		}
		simrt.WaitQuiescent()
		trace = append(trace, "drain")
		adm := 0
		for j := 0; j < int(limit)+2; j++ {
			if connect("f") {
				adm++
			}
			simrt.WaitQuiescent()
		}
		if adm != int(limit) {
			e.Fail("C18/slots-not-conserved", "after every session ended, %d fresh connections were admitted; the limit is %d (leaked or doubly released slots) | history: %s", adm, limit, strings.Join(trace, " "))
		}
		e.Sched.OnStep = nil
		e.CheckSettled("C18/task-stuck-at-quiescence")
		e.CloseAll()
	})
	rep.Sample = rep.Cell + ": " + strings.Join(trace, " ")
	return finish(rep, out)
}

func b2i(b bool) int {
	if b {
		return 1
	}
	return 0
}

func runC18Rate(t *testing.T, seed uint64, m *Mask, opt world.Options, proto string, r *simrt.Rand) *Report {
	interval := []time.Duration{10 * time.Millisecond, 50 * time.Millisecond, 100 * time.Millisecond}[r.Intn(3)]
	perSec := int32(time.Second / interval)
	limit1 := int32(1+r.Intn(30)) * []int32{1, 1, perSec / 4}[r.Intn(3)]
	if limit1 <= 0 {
		limit1 = 3
	}
	if limit1 > 60 {
		limit1 = 60 // bursts are sized by the limit; larger ones only hit the step cap
	}
	handlerLimit := int32(0)
	if r.Chance(0.3) {
		handlerLimit = 1 + int32(r.Intn(int(limit1)))
	}
	update := r.Chance(0.5)
	limit2 := int32(1 + r.Intn(40))
	updateAt := time.Duration(2+r.Intn(6)) * interval
	total := time.Duration(6+r.Intn(10)) * interval
	// an update may also change the refill interval
	interval2 := interval
	if update && r.Chance(0.4) {
		interval2 = []time.Duration{10 * time.Millisecond, 50 * time.Millisecond, 100 * time.Millisecond}[r.Intn(3)]
		if min := updateAt + 8*interval2; total < min {
			total = min
		}
	}
	// an update that changes nothing but the interval, and a caller that keeps asking after the update: the rate
	// in force is the limit per second, whatever the refill rhythm
	sustained := false
	{
		r2 := simrt.NewRand(simrt.Mix(seed, 1801))
		if update && interval2 != interval && r2.Chance(0.5) {
			limit2 = limit1
			if limit2 > 40 {
				limit2 = 40
			}
			limit1 = limit2
		}
		sustained = update && r2.Chance(0.5)
	}
	// an update may also lower the limit of one handler - by editing the configuration the plugin hands out
	// (read-modify-write of LimitConfig()) or with a freshly built one
	handlerLimit2, handlerRMW := int32(0), false
	{
		r4 := simrt.NewRand(simrt.Mix(seed, 1802))
		if update && handlerLimit > 2 && r4.Chance(0.6) {
			handlerLimit2 = 1 + handlerLimit/4
			handlerRMW = r4.Chance(0.6)
			sustained = false // the total bucket must be full when the handler's burst arrives
			if limit2 < limit1 {
				limit2 = limit1 // the total limit stays out of the way of the handler's
			}
			if handlerRMW && r4.Chance(0.7) {
				interval2 = interval
			}
		}
	}
	perSec2 := int32(time.Second / interval2)
	nBursts := 2 + r.Intn(5)
	type burst struct {
		at time.Duration
		n  int
		// echoOnly: calls of the one limited handler only
		echoOnly bool
	}
	var bursts []burst
	for i := 0; i < nBursts; i++ {
		bursts = append(bursts, burst{at: time.Duration(r.Intn(int(total))), n: 1 + r.Intn(int(limit1)+10)})
	}
	if sustained {
		settle := 2 * interval
		if interval2 > interval {
			settle = 2 * interval2
		}
		for k := 0; k < 8; k++ {
			bursts = append(bursts, burst{at: updateAt + settle + time.Duration(k)*interval2 + interval2/2, n: int(limit2)/2 + 3})
		}
		if min := updateAt + settle + 10*interval2; total < min {
			total = min
		}
	}
	if handlerLimit2 > 0 {
		// all at once, to the limited handler only, as many as its old limit allowed
		settle := 2 * interval
		if interval2 > interval {
			settle = 2 * interval2
		}
		bursts = append(bursts, burst{at: updateAt + settle + 12*interval2 + interval2/2, n: int(handlerLimit) + 2, echoOnly: true})
		if min := updateAt + settle + 15*interval2; total < min {
			total = min
		}
	}
	rep := &Report{NOps: len(bursts)}
	rep.Cell = fmt.Sprintf("rate,%s,interval=%v,limit=%d,handler=%d,update=%v->%d/%v@%v", proto, interval, limit1, handlerLimit, update, limit2, interval2, updateAt)

	out := world.Run(t, opt, func(e *world.Env) {
		e.AllowUnknownArgs = true
		if interval2 < interval {
			e.Sched.HintMaxSleep(interval2 / 2)
		} else {
			e.Sched.HintMaxSleep(interval / 2)
		}
		e.Sched.StopAfterMain = true // the limiter's tickers are never stopped
		pf := world.ProtoFunc(proto)
		cfg := overloader.LimitConfig{QPSInterval: interval, MaxTotalQPS: limit1}
		srvTmp := e.NewPeer("tmp", erpc.PeerConfig{})
		rt := e.RegisterStd(srvTmp)
		if handlerLimit > 0 {
			cfg.MaxHandlerQPS = []overloader.HandlerLimit{{ServiceMethod: rt.Echo, MaxQPS: handlerLimit}}
		}
		ov := overloader.New(cfg)
		srv := e.NewPeer("srv", erpc.PeerConfig{}, ov)
		rt = e.RegisterStd(srv)
		cli := e.NewPeer("cli", erpc.PeerConfig{})
		sess, _, _, _ := e.ServePair(cli, srv, pf, pf)
		start := e.Sched.Now()
		var ops []*world.Op
		done, want := 0, 0
		for bi, b := range bursts {
			if m.opDropped(bi) {
				continue
			}
			b := b
			bi := bi
			want++
			simrt.GoNamed("burst", func() {
				defer func() { done++ }()
				simrt.Sleep(b.at)
				sub := 0
				for j := 0; j < b.n; j++ {
					idx := 1000*bi + j
					if b.echoOnly {
						idx *= 3 // the standard world sends every third operation to the controller form of the handler
					}
					op := &world.Op{Idx: idx, Tag: fmt.Sprintf("T%x.b%d.%d", seed&0xffffff, bi, j), Kind: []string{"call", "call", "push"}[e.Gen.Intn(3)], Route: "echo", Data: "d", MetaK: "Mk", MetaV: "v", Codec: 'j'}
					if b.echoOnly {
						op.Kind = "call"
					}
					if op.Kind == "push" {
						op.Route = "note"
					}
					e.OpByTag[op.Tag] = op
					ops = append(ops, op)
					sub++
					simrt.GoNamed("caller", func() { e.Issue(sess, rt, op, nil); sub-- })
				}
				simrt.WaitCond(func() bool { return sub == 0 })
			})
		}
		updatedAt := time.Duration(-1)
		if update {
			simrt.GoNamed("updater", func() {
				simrt.Sleep(updateAt)
				c2 := cfg
				if handlerLimit2 > 0 && handlerRMW {
					c2 = ov.LimitConfig() // what the plugin hands out: the application edits it and hands it back
					c2.MaxHandlerQPS[0].MaxQPS = handlerLimit2
				} else if handlerLimit2 > 0 {
					c2.MaxHandlerQPS = []overloader.HandlerLimit{{ServiceMethod: rt.Echo, MaxQPS: handlerLimit2}}
				}
				c2.MaxTotalQPS = limit2
				c2.QPSInterval = interval2
				ov.Update(c2)
				updatedAt = e.Sched.Now() - start
			})
		}
		simrt.WaitCond(func() bool { return done == want })
		simrt.Sleep(2 * interval)
		// ---- oracle ----
		type adm struct {
			at  time.Duration
			tag string
		}
		var admitted []adm
		ran := map[string]bool{}
		for _, ev := range e.Obs.Handlers {
			if !ev.Exit {
				admitted = append(admitted, adm{ev.At - start, world.TagOf(ev.Arg)})
				ran[world.TagOf(ev.Arg)] = true
			}
		}
		for _, op := range ops {
			if op.Kind == "push" || !op.Done {
				continue
			}
			if !op.OK && ran[op.Tag] {
				e.Fail("C18/rejected-call-was-handled", "%s: call %s got %d %q but its handler ran", rep.Cell, op.Tag, op.Code, op.Msg)
			}
			if op.OK && !ran[op.Tag] {
				e.Fail("C18/admitted-call-not-handled", "%s: call %s got OK but no handler ran", rep.Cell, op.Tag)
			}
			if !op.OK && (op.Code != erpc.CodeInternalServerError || !strings.Contains(op.Msg, "qps overload")) {
				e.Fail("C18/rejected-call-wrong-status", "%s: call %s got %d %q %q", rep.Cell, op.Tag, op.Code, op.Msg, op.Cause)
			}
		}
		onceAt := func(l, ps int32) int32 {
			o := l / ps
			if o == 0 {
				o = 1
			}
			return o
		}
		longer, shorter := interval, interval2
		if interval2 > interval {
			longer, shorter = interval2, interval
		}
		// capacity, refill per tick and tick interval in force for a window.  Before the update: the first
		// configuration; from two (longer) intervals after it: the second; in between the more permissive of
		// each (the bucket is clamped, and the ticker restarted, at the update or the first tick after it)
		capAt := func(from, to time.Duration) (int32, int32, time.Duration) {
			if !update || updatedAt < 0 || to < updatedAt {
				return limit1, onceAt(limit1, perSec), interval
			}
			if from >= updatedAt+2*longer {
				return limit2, onceAt(limit2, perSec2), interval2
			}
			l := limit1
			if limit2 > l {
				l = limit2
			}
			o := onceAt(l, perSec)
			if o2 := onceAt(l, perSec2); o2 > o {
				o = o2
			}
			return l, o, shorter
		}
		for i := range admitted {
			for j := i; j < len(admitted); j++ {
				from, to := admitted[i].at, admitted[j].at
				n := int32(j - i + 1)
				capacity, refill, iv := capAt(from, to)
				ticks := int32((to-from)/iv) + 1
				bound := capacity + (refill+1)*(ticks+1)
				if n > bound {
					e.Fail("C18/rate-above-bound", "%s: %d calls/pushes were handled in the window [%v, %v]; capacity %d + (refill %d + 1) * (%d ticks + 1) = %d (update at %v)", rep.Cell, n, from, to, capacity, refill, ticks, bound, updatedAt)
					i = len(admitted)
					break
				}
			}
		}
		// the limited handler on its own, once the update has settled: its lowered limit is in force
		if handlerLimit2 > 0 && updatedAt >= 0 {
			var hs []time.Duration
			for _, ev := range e.Obs.Handlers {
				if !ev.Exit && ev.Method == rt.Echo && ev.At-start >= updatedAt+2*longer {
					hs = append(hs, ev.At-start)
				}
			}
			refill := onceAt(handlerLimit2, perSec2)
			for i := range hs {
				for j := i; j < len(hs); j++ {
					n := int32(j - i + 1)
					ticks := int32((hs[j]-hs[i])/interval2) + 1
					if bound := handlerLimit2 + (refill+1)*(ticks+1); n > bound {
						e.Fail("C18/handler-rate-above-bound", "%s: %d calls of the limited handler were handled in the window [%v, %v] after its limit was lowered to %d (rmw=%v): capacity %d + (refill %d + 1) * (%d ticks + 1) = %d (update at %v)", rep.Cell, n, hs[i], hs[j], handlerLimit2, handlerRMW, handlerLimit2, refill, ticks, bound, updatedAt)
						i = len(hs)
						break
					}
				}
			}
			e.Probe("c18-handler-limit-lowered")
		}
		e.Probe(fmt.Sprintf("admitted=%d/%d", len(admitted)/10*10, len(ops)/10*10))
		e.CloseAll()
	})
	rep.Sample = rep.Cell
	return finish(rep, out)
}
