package props

import (
	"context"
	"fmt"
	"github.com/henrylee2cn/goutil"
	"strings"
	"testing"
	"time"

	erpc "github.com/henrylee2cn/erpc/v6"
	"github.com/henrylee2cn/erpc/v6/socket"
	"github.com/henrylee2cn/erpc/v6/utils"

	"simrt"
	"verif/simnet"
	"verif/world"
)

// C20 - recycled messages, contexts, metadata and sockets behave like fresh ones.
//
// History-based differential test with the pool as the seam.  The simulator's deterministic pool returns the
// released object at once (identity is asserted), so "the previous user's history" is fully controlled.
// Object level: for utils.Args, socket.Message (with its metadata and filter pipe), utils.ByteBuffer and
// socket.GetSocket a generated history of public operations is applied, the object is released and
// re-acquired, then a second generated history is applied to the recycled object and to a freshly
// constructed twin; every public getter and the bytes a protocol packs from it must agree.
// System level: in a two-peer world handlers and plugins dirty their contexts on purpose (context swap,
// reply metadata, reply filter pipe, reply codec, rewritten service method, session swap) and every
// later handler entry, reply and caller, on any session of the process, must show none of it.

func init() { register(&Prop{ID: "C20", Run: runC20}) }

type argsOp struct {
	kind string
	k, v string
}

func genArgsOps(r *simrt.Rand, n int) []argsOp {
	keys := []string{"a", "b", "flag", "Mk", "x-y", "long-key-name", ""}
	var out []argsOp
	for i := 0; i < n; i++ {
		k := keys[r.Intn(len(keys))]
		v := world.GenString(r, r.Intn(12), "abcdef012 =&%")
		switch r.Intn(7) {
		case 0:
			out = append(out, argsOp{"add", k, v})
		case 1:
			out = append(out, argsOp{"set", k, v})
		case 2:
			out = append(out, argsOp{"del", k, ""})
		case 3:
			out = append(out, argsOp{"setuint", k, fmt.Sprint(r.Intn(100000))})
		default:
			// a query string; some end with (or contain) a key without a value
			var parts []string
			for j := r.Intn(5); j >= 0; j-- {
				kk := keys[r.Intn(len(keys)-1)]
				switch r.Intn(4) {
				case 0:
					parts = append(parts, kk)
				case 1:
					parts = append(parts, kk+"=")
				default:
					parts = append(parts, kk+"="+world.GenString(r, 1+r.Intn(20), "abcdef0123456789"))
				}
			}
			out = append(out, argsOp{"parse", strings.Join(parts, "&"), ""})
		}
	}
	return out
}

func applyArgs(a *utils.Args, ops []argsOp) {
	for _, o := range ops {
		switch o.kind {
		case "add":
			a.Add(o.k, o.v)
		case "set":
			a.Set(o.k, o.v)
		case "del":
			a.Del(o.k)
		case "setuint":
			var n int
			fmt.Sscan(o.v, &n)
			a.SetUint(o.k, n)
		case "parse":
			a.Parse(o.k)
		}
	}
}

func viewArgs(a *utils.Args) string {
	var sb strings.Builder
	fmt.Fprintf(&sb, "len=%d qs=%q visit=", a.Len(), a.QueryString())
	a.VisitAll(func(k, v []byte) { fmt.Fprintf(&sb, "[%q=%q]", k, v) })
	for _, k := range []string{"a", "b", "flag", "Mk", "x-y", "long-key-name", ""} {
		fmt.Fprintf(&sb, " peek(%s)=%q has=%v", k, a.Peek(k), a.Has(k))
	}
	return sb.String()
}

type msgOp struct {
	kind string
	s    string
	n    int
	b    []byte
}

func genMsgOps(r *simrt.Rand, n int) []msgOp {
	var out []msgOp
	kinds := []string{"seq", "mtype", "method", "status", "meta", "meta", "codec", "body", "pipe", "size", "ctx", "newbody", "parsemeta"}
	for i := 0; i < n; i++ {
		k := kinds[r.Intn(len(kinds))]
		o := msgOp{kind: k, n: r.Intn(1 << 16), s: world.GenString(r, r.Intn(16), "abcdefXYZ019_-/")}
		switch k {
		case "body":
			o.b = []byte(world.GenString(r, r.Intn(200), "abcdef0123456789"))
		case "pipe":
			o.b = []byte{[]byte{world.FGzip1, world.FGzip5, world.FMd5}[r.Intn(3)]}
		case "parsemeta":
			o.s = []string{"flag", "a=1&flag", "k=v&x", "Mk=1&Mk=2&z"}[r.Intn(4)]
		}
		out = append(out, o)
	}
	return out
}

type ctxKey struct{}

func applyMsg(m socket.Message, ops []msgOp) {
	for _, o := range ops {
		switch o.kind {
		case "seq":
			m.SetSeq(int32(o.n))
		case "mtype":
			m.SetMtype(byte(1 + o.n%3))
		case "method":
			m.SetServiceMethod("/" + o.s)
		case "status":
			m.SetStatus(erpc.NewStatus(int32(1+o.n), o.s, "c"))
		case "meta":
			m.Meta().Add("K"+o.s, o.s)
		case "parsemeta":
			m.Meta().Parse(o.s)
		case "codec":
			m.SetBodyCodec([]byte{'j', 'p', 's', 0}[o.n%4])
		case "body":
			m.SetBody(o.b)
		case "pipe":
			m.XferPipe().Append(o.b...)
		case "size":
			m.SetSize(uint32(o.n))
		case "ctx":
			socket.WithContext(context.WithValue(context.Background(), ctxKey{}, o.s))(m)
		case "newbody":
			m.SetNewBody(func(socket.Header) interface{} { return new([]byte) })
		}
	}
}

func viewMsg(m socket.Message) string {
	st := "OK"
	if s := m.Status(); !s.OK() {
		st = fmt.Sprintf("(%d,%q)", s.Code(), s.Msg())
	}
	body := "<nil>"
	switch b := m.Body().(type) {
	case []byte:
		body = fmt.Sprintf("%q", b)
	case nil:
	default:
		body = fmt.Sprintf("%T", b)
	}
	return fmt.Sprintf("seq=%d mtype=%d method=%q status=%s meta=%q metalen=%d codec=%d body=%s pipe=%v pipelen=%d size=%d ctxval=%v",
		m.Seq(), m.Mtype(), m.ServiceMethod(), st, m.Meta().QueryString(), m.Meta().Len(), m.BodyCodec(), body, m.XferPipe().IDs(), m.XferPipe().Len(), m.Size(), m.Context().Value(ctxKey{}))
}

func runC20(t *testing.T, seed uint64, m *Mask) *Report {
	sc, nc, r := swarm(seed, m)
	sc.PoolMissP, sc.PoolMode = 0, 0 // the object level needs the pool to hand the same object back
	opt := world.Options{Seed: seed, Sim: sc, Net: nc}
	if r.Chance(0.3) {
		return runC20System(t, seed, m, opt, r)
	}
	kind := []string{"args", "args", "message", "message", "bytebuffer", "socket"}[r.Intn(6)]
	n1, n2 := 1+r.Intn(12), r.Intn(8)
	rep := &Report{NOps: n1 + n2}
	rep.Cell = "object:" + kind
	var sample string
	out := world.Run(t, opt, func(e *world.Env) {
		switch kind {
		case "args":
			h1, h2 := genArgsOps(r, n1), genArgsOps(r, n2)
			sample = fmt.Sprintf("first user %v | second user %v", h1, h2)
			a := utils.AcquireArgs()
			applyArgs(a, h1)
			utils.ReleaseArgs(a)
			b := utils.AcquireArgs()
			if a != b {
				e.Fail("infra-pool-not-lifo", "the pool did not return the released Args")
				return
			}
			fresh := &utils.Args{}
			if v1, v2 := viewArgs(b), viewArgs(fresh); v1 != v2 {
				e.Fail("C20/recycled-args-not-empty", "a recycled Args differs from a new one before use: %s vs %s | %s", v1, v2, sample)
			}
			applyArgs(b, h2)
			applyArgs(fresh, h2)
			if v1, v2 := viewArgs(b), viewArgs(fresh); v1 != v2 {
				e.Fail("C20/recycled-args-differ", "after the same operations a recycled Args shows %s, a new one %s | %s", v1, v2, sample)
			}
			// CopyTo into a recycled destination
			dst := utils.AcquireArgs()
			applyArgs(dst, h1)
			utils.ReleaseArgs(dst)
			dst = utils.AcquireArgs()
			b.CopyTo(dst)
			if v1, v2 := viewArgs(dst), viewArgs(fresh); v1 != v2 {
				e.Fail("C20/recycled-args-differ", "CopyTo into a recycled Args gives %s, expected %s | %s", v1, v2, sample)
			}
		case "message":
			h1, h2 := genMsgOps(r, n1), genMsgOps(r, n2)
			sample = fmt.Sprintf("first user %d ops, second user %d ops", len(h1), len(h2))
			a := socket.GetMessage()
			applyMsg(a, h1)
			// the first user looks at what it built (as a protocol's Pack and the run log do) before it lets go
			_ = viewMsg(a)
			_ = a.XferPipe().IDs()
			_ = a.String()
			socket.PutMessage(a)
			b := socket.GetMessage()
			if a != b {
				e.Fail("infra-pool-not-lifo", "the pool did not return the released Message")
				return
			}
			fresh := socket.NewMessage()
			if v1, v2 := viewMsg(b), viewMsg(fresh); v1 != v2 {
				e.Fail("C20/recycled-message-not-default", "a recycled Message differs from a new one before use: %s vs %s | first user: %v", v1, v2, h1)
			}
			applyMsg(b, h2)
			applyMsg(fresh, h2)
			if v1, v2 := viewMsg(b), viewMsg(fresh); v1 != v2 {
				e.Fail("C20/recycled-message-differs", "after the same operations a recycled Message shows %s, a new one %s | first user: %v", v1, v2, h1)
			}
			// what a protocol packs from it
			pack := func(msg socket.Message) string {
				ca, _ := e.Net.Pair()
				s := socket.NewSocket(ca, socket.RawProtoFunc)
				if _, ok := msg.Body().([]byte); !ok {
					msg.SetBody(nil)
				}
				msg.SetSize(0)
				if err := s.WriteMessage(msg); err != nil {
					return "pack error: " + err.Error()
				}
				return fmt.Sprintf("%x", ca.Sent())
			}
			if p1, p2 := pack(b), pack(fresh); p1 != p2 {
				e.Fail("C20/recycled-message-packs-differently", "the raw protocol packs %d bytes from the recycled Message and %d from the new one (first difference matters: previous user's data on the wire) | first user: %v", len(p1)/2, len(p2)/2, h1)
			}
		case "bytebuffer":
			a := utils.AcquireByteBuffer()
			a.Write([]byte(world.GenString(r, 1+r.Intn(300), "abcdef")))
			if r.Chance(0.5) {
				a.ChangeLen(r.Intn(400))
			}
			utils.ReleaseByteBuffer(a)
			b := utils.AcquireByteBuffer()
			sample = "bytebuffer"
			if b.Len() != 0 || len(b.Bytes()) != 0 || b.String() != "" {
				e.Fail("C20/recycled-bytebuffer-not-empty", "a recycled ByteBuffer has Len=%d Bytes=%q", b.Len(), b.Bytes())
			}
			w := world.GenString(r, r.Intn(50), "xyz")
			b.WriteString(w)
			if b.String() != w {
				e.Fail("C20/recycled-bytebuffer-differs", "wrote %q into a recycled ByteBuffer, it holds %q", w, b.String())
			}
			k := r.Intn(64)
			b.ChangeLen(k)
			if b.Len() != k {
				e.Fail("C20/recycled-bytebuffer-differs", "ChangeLen(%d) on a recycled ByteBuffer gives Len %d", k, b.Len())
			}
			utils.ReleaseByteBuffer(b)
		case "socket":
			ca, cb := e.Net.Pair()
			a := socket.GetSocket(ca, socket.RawProtoFunc)
			a.SetID("previous-user-id")
			a.Swap().Store("secret", "of the previous user")
			_ = cb
			sample = "socket"
			if r.Chance(0.5) {
				// released by several closers at once (the owner shuts down while a reader that saw EOF closes
				// too): the object must go back to the pool once, or two later users would share it
				sample = "socket, concurrent close"
				closers := &world.Cnt{}
				for k := 2 + r.Intn(2); k > 0; k-- {
					closers.Inc()
					simrt.GoNamed("closer", func() { a.Close(); closers.Dec() })
				}
				simrt.WaitCond(func() bool { return closers.Get() == 0 })
			} else {
				a.Close()
			}
			c2, _ := e.Net.Pair()
			b := socket.GetSocket(c2, socket.RawProtoFunc)
			c3, _ := e.Net.Pair()
			other := socket.GetSocket(c3, socket.RawProtoFunc)
			if other == b {
				e.Fail("C20/recycled-socket-handed-out-twice", "two GetSocket calls for two connections returned the same Socket (%s)", sample)
				return
			}
			defer other.Close()
			if a != b {
				e.Fail("infra-pool-not-lifo", "the pool did not return the released Socket")
				return
			}
			if b.ID() != c2.RemoteAddr().String() {
				e.Fail("C20/recycled-socket-keeps-id", "a recycled Socket reports id %q, a new one would report %q", b.ID(), c2.RemoteAddr().String())
			}
			if b.SwapLen() != 0 {
				e.Fail("C20/recycled-socket-keeps-swap", "a recycled Socket has %d swap entries", b.SwapLen())
			}
			if _, ok := b.Swap().Load("secret"); ok {
				e.Fail("C20/recycled-socket-keeps-swap", "a recycled Socket still holds the previous user's swap entry")
			}
			if b.LocalAddr().String() != c2.LocalAddr().String() {
				e.Fail("C20/recycled-socket-wrong-conn", "a recycled Socket reports the previous connection's address")
			}
			msg := socket.GetMessage(socket.WithBody([]byte("x")))
			msg.SetMtype(1)
			b.WriteMessage(msg)
			if len(ca.Sent()) != 0 || len(c2.Sent()) == 0 {
				e.Fail("C20/recycled-socket-wrong-conn", "a write on the recycled Socket went to the previous connection (%d bytes) instead of the new one (%d)", len(ca.Sent()), len(c2.Sent()))
			}
			b.Close()
		}
	})
	rep.Sample = rep.Cell + ": " + sample
	if len(rep.Sample) > 600 {
		rep.Sample = rep.Sample[:600]
	}
	return finish(rep, out)
}

// ---- system level ----

type dirtyPlugin struct{ env *world.Env }

func (d *dirtyPlugin) Name() string { return "dirty" }
func (d *dirtyPlugin) PostReadCallBody(c erpc.ReadCtx) *erpc.Status {
	c20CheckClean(d.env, c.Swap().Len(), c.Session().Swap().Len(), "plugin PostReadCallBody")
	c.Swap().Store("plugin-left-this", "dirty-plugin-"+string(c.PeekMeta("Mk")))
	return nil
}

// PostReadPushBody dirties the (unused) output message of a context that handles a push: the next user of
// the context must not see it.
func (d *dirtyPlugin) PostReadPushBody(c erpc.ReadCtx) *erpc.Status {
	if d.env.Gen.Chance(0.7) {
		w, ok := c.(erpc.WriteCtx) // the context object implements every context interface
		if !ok {
			return nil
		}
		o := w.Output()
		o.Meta().Set("Left-Over", "dirty-on-push")
		o.XferPipe().Append(world.FGzip5)
		o.SetBodyCodec('p')
		o.SetStatus(erpc.NewStatus(3999, "left by a push hook", ""))
	}
	return nil
}
func (d *dirtyPlugin) PreWriteReply(c erpc.WriteCtx) *erpc.Status {
	if d.env.Gen.Chance(0.5) {
		c.Output().Meta().Add("Dirty-Plugin", "dirty-meta")
	}
	return nil
}

func c20CheckClean(e *world.Env, ctxSwap, sessSwap int, where string) {
	// the context's swap is a copy of the session's taken when the reader set the context up (the session's may
	// have grown since): more entries than the session has can only be leftovers of an earlier user
	if ctxSwap > sessSwap {
		e.Fail("C20/context-swap-not-fresh", "%s: a handler context starts with %d swap entries although the session swap has %d", where, ctxSwap, sessSwap)
	}
}

type c20CtxKey struct{}

type Dirty struct{ erpc.CallCtx }

// Mess handles a call, checks that its context is pristine and then dirties everything it can reach.
func (d *Dirty) Mess(arg *world.Payload) (*world.Payload, *erpc.Status) {
	e := world.Cur()
	simrt.Yield()
	e.Obs.RecordHandler(world.HandlerEvent{Peer: "srv", Sess: world.SessKey(d.Session()), Seq: d.Seq(), Kind: "call", Method: d.ServiceMethod(), Arg: arg.String()})
	// pristine?
	if n := d.Output().Meta().Len(); n != 0 {
		e.Fail("C20/reply-meta-not-fresh", "handler for %s starts with %d reply metadata pairs: %q", arg.Tag, n, d.Output().Meta().QueryString())
	}
	if n := d.Output().XferPipe().Len(); n != d.Input().XferPipe().Len() {
		e.Fail("C20/reply-pipe-not-fresh", "handler for %s starts with a reply pipe of %d filters, the request has %d", arg.Tag, n, d.Input().XferPipe().Len())
	}
	if c := d.Output().BodyCodec(); c != 0 {
		e.Fail("C20/reply-codec-not-fresh", "handler for %s starts with reply codec %d", arg.Tag, c)
	}
	if d.Output().Body() != nil {
		e.Fail("C20/reply-body-not-fresh", "handler for %s starts with a reply body", arg.Tag)
	}
	if d.ServiceMethod() != "/dirty/mess" {
		e.Fail("C20/service-method-not-fresh", "handler for %s sees service method %q", arg.Tag, d.ServiceMethod())
	}
	for _, k := range []string{"Left-Over", "Dirty-Plugin"} {
		if v := d.PeekMeta(k); len(v) > 0 {
			e.Fail("C20/input-meta-not-fresh", "handler for %s sees metadata %s=%q that its caller never sent", arg.Tag, k, v)
		}
	}
	if _, ok := d.Swap().Load("handler-left-this"); ok {
		e.Fail("C20/context-swap-not-fresh", "handler for %s finds a swap entry of an earlier handler", arg.Tag)
	}
	// the session has no context age: the handler's context.Context is the default one - no deadline, not
	// cancelled, none of the values some caller in this process attached to its own call
	if cx := d.Context(); cx != nil {
		if _, has := cx.Deadline(); has || cx.Err() != nil || cx.Value(c20CtxKey{}) != nil {
			e.Fail("C20/context-not-fresh", "handler for %s starts with a context.Context of an earlier user (deadline=%v err=%v value=%v)", arg.Tag, has, cx.Err(), cx.Value(c20CtxKey{}))
		}
	}
	// dirty
	g := e.Gen
	d.Swap().Store("handler-left-this", "dirty-"+arg.Tag)
	if g.Chance(0.6) {
		d.SetMeta("Left-Over", "dirty-"+arg.Tag)
		d.AddMeta("Left-Over", "again-"+arg.Tag)
	}
	if g.Chance(0.4) {
		d.AddXferPipe(world.FGzip5)
	}
	if g.Chance(0.3) {
		d.SetBodyCodec('p')
	}
	if g.Chance(0.3) {
		d.ResetServiceMethod("/rewritten/by/" + arg.Tag)
	}
	if g.Chance(0.2) {
		return nil, erpc.NewStatus(int32(3000+g.Intn(10)), "dirty status "+arg.Tag, "x")
	}
	d.SetMeta("Rtag", arg.Tag)
	return &world.Payload{Tag: arg.Tag, Data: "clean-" + arg.Tag}, nil
}

func runC20System(t *testing.T, seed uint64, m *Mask, opt world.Options, r *simrt.Rand) *Report {
	proto := []string{"raw", "json", "pb", "thrift-binary"}[r.Intn(4)]
	n := 2 + r.Intn(10)
	nSess := 1 + r.Intn(3)
	concurrent := r.Chance(0.5)
	rep := &Report{NOps: n}
	rep.Cell = "system:" + proto
	out := world.Run(t, opt, func(e *world.Env) {
		e.AllowUnknownArgs = true
		greeter := &c20Greeter{}
		srv := e.NewPeer("srv", erpc.PeerConfig{}, &dirtyPlugin{env: e}, greeter)
		srv.RouteCall(new(Dirty))
		// unknown-call / unknown-push handlers run on pooled contexts too: what they are given (possibly an
		// empty body) must be what this message carried, whatever the context held before
		srv.SetUnknownCall(func(c erpc.UnknownCallCtx) (interface{}, *erpc.Status) {
			simrt.YieldQuiet()
			return []byte(fmt.Sprintf("unknown:%d:%s", len(c.InputBodyBytes()), c.InputBodyBytes())), nil
		})
		unknownPushSaw := map[string]string{}
		srv.SetUnknownPush(func(c erpc.UnknownPushCtx) *erpc.Status {
			simrt.YieldQuiet()
			unknownPushSaw[string(c.PeekMeta("Pk"))] = string(c.InputBodyBytes())
			return nil
		})
		// the caller keeps per-call data in the swap of its call (a tracing plugin would): it is the call's own for
		// as long as the caller holds the command, whatever the pooled context that read the reply does next
		cli := e.NewPeer("cli", erpc.PeerConfig{}, &c20Tracer{})
		pf := world.ProtoFunc(proto)
		var sessions []erpc.Session
		var conns []*simnet.Conn
		for i := 0; i < nSess; i++ {
			s, ssrv, ca, _ := e.ServePair(cli, srv, pf, pf)
			sessions = append(sessions, s)
			conns = append(conns, ca)
			// some sessions carry application data in their swap: each message context starts with a private copy
			if e.Gen.Chance(0.5) {
				ssrv.Swap().Store("session-owner", fmt.Sprintf("user%d", i))
				s.Swap().Store("session-owner", fmt.Sprintf("user%d", i))
			}
		}
		type call struct {
			cmd  erpc.CallCmd
			tag  string
			ok   bool
			code int32
			res  world.Payload
			meta map[string][]string
		}
		calls := make([]*call, n+3)
		run := func(i int) {
			c := &call{tag: fmt.Sprintf("T%x.s%d", seed&0xffffff, i), meta: map[string][]string{}}
			calls[i] = c
			res := new(world.Payload)
			st := []erpc.MessageSetting{erpc.WithBodyCodec('j'), erpc.WithAddMeta("Mk", c.tag)}
			if e.Gen.Chance(0.3) {
				st = append(st, erpc.WithXferPipe(world.FGzip1))
			}
			if e.Gen.Chance(0.3) {
				// the caller's own context: a value, a deadline far away, sometimes already cancelled after the call
				cx, cancel := context.WithTimeout(context.WithValue(context.Background(), c20CtxKey{}, "of-call-"+c.tag), time.Hour)
				st = append(st, erpc.WithContext(cx))
				defer cancel()
			}
			cmd := sessions[i%len(sessions)].Call("/dirty/mess", &world.Payload{Tag: c.tag, Data: "d"}, res, st...)
			simrt.Yield()
			c.cmd = cmd
			c.ok = cmd.StatusOK()
			if !c.ok {
				c.code = cmd.Status().Code()
			}
			c.res = *res
			if im := cmd.InputMeta(); im != nil {
				im.VisitAll(func(k, v []byte) { c.meta[string(k)] = append(c.meta[string(k)], string(v)) })
			}
		}
		if concurrent {
			done := 0
			for i := 0; i < n; i++ {
				i := i
				if m.opDropped(i) {
					done++
					continue
				}
				simrt.GoNamed("caller", func() { run(i); done++ })
			}
			simrt.WaitCond(func() bool { return done == n })
		} else {
			for i := 0; i < n; i++ {
				if !m.opDropped(i) {
					run(i)
				}
			}
		}
		// unknown routes, with and without a body, after the traffic above
		for j := 0; j < 2+e.Gen.Intn(4); j++ {
			body := []byte(nil)
			if e.Gen.Chance(0.4) {
				body = []byte(world.GenString(e.Gen, 1+e.Gen.Intn(40), "QRSTUV"))
			}
			sess := sessions[j%len(sessions)]
			var res []byte
			cmd := sess.Call("/no/such/route", body, &res, erpc.WithBodyCodec('s'))
			if want := fmt.Sprintf("unknown:%d:%s", len(body), body); cmd.StatusOK() && string(res) != want {
				e.Fail("C20/unknown-handler-sees-previous-users-body", "unknown-call handler was sent a %d-byte body and answered %q", len(body), res)
			}
			pk := fmt.Sprintf("p%d", j)
			if st := sess.Push("/no/such/push", body, erpc.WithBodyCodec('s'), erpc.WithAddMeta("Pk", pk)); st.OK() {
				simrt.WaitQuiescent()
				if saw, ok := unknownPushSaw[pk]; ok && saw != string(body) {
					e.Fail("C20/unknown-handler-sees-previous-users-body", "unknown-push handler was sent a %d-byte body and saw %q", len(body), saw)
				}
			}
			e.Probe("c20-unknown-handler-messages")
		}
		// a foreign connection sends one frame of a message type the framework does not serve and is dropped
		if e.Gen.Chance(0.5) {
			ra, rb := e.Net.Pair()
			if _, st := srv.ServeConn(rb, pf); st.OK() {
				world.NewRawPeer(ra, pf).Send(byte(7+e.Gen.Intn(100)), 1, "/dirty/mess", 'j', []byte(`{}`), nil, nil, nil)
				simrt.WaitQuiescent()
				ra.Close()
				e.Probe("c20-unsupported-type-frame")
			}
		}
		// a connection hook greets a new connection through the pre-session API (PreSend / RawPush use pooled messages
		// of their own) and the write fails: afterwards the message pool must hand out two different, blank messages
		if e.Gen.Chance(0.5) {
			ra, rb := e.Net.Pair()
			rb.FailWrite(0, e.Gen.Intn(5))
			greeter.mode = 1 + e.Gen.Intn(2)
			srv.ServeConn(rb, pf)
			greeter.mode = 0
			simrt.WaitQuiescent()
			ra.Close()
			m1, m2 := socket.GetMessage(), socket.GetMessage()
			if m1 == m2 {
				e.Fail("C20/recycled-message-handed-out-twice", "after a pre-session send whose write failed (greeting sent: %d, failed: %d) the message pool handed the same Message to two users", greeter.sent, greeter.failed)
			}
			for i, mm := range []socket.Message{m1, m2} {
				if mm.ServiceMethod() != "" || mm.Meta().Len() != 0 || mm.Seq() != 0 || mm.Body() != nil {
					e.Fail("C20/recycled-message-not-blank", "message #%d from the pool after a failed pre-session send is not blank: %s", i, viewMsg(mm))
				}
			}
			socket.PutMessage(m1)
			if m2 != m1 {
				socket.PutMessage(m2)
			}
			e.Probe("c20-pre-session-send-failed")
		}
		// and ordinary calls again, on contexts that have meanwhile handled pushes and unknown messages
		for i := n; i < n+3; i++ {
			run(i)
		}
		simrt.WaitQuiescent()
		for _, c := range calls {
			if c == nil {
				continue
			}
			// nothing of another call may show in this call's reply
			for k, vs := range c.meta {
				for _, v := range vs {
					if strings.Contains(v, "T") && !strings.Contains(v, c.tag) && (strings.HasPrefix(v, "dirty-") || strings.HasPrefix(v, "again-") || k == "Rtag") {
						e.Fail("C20/reply-carries-previous-users-meta", "call %s got reply metadata %s=%q", c.tag, k, v)
					}
				}
			}
			if c.ok && (c.res.Tag != c.tag || c.res.Data != "clean-"+c.tag) {
				e.Fail("C20/reply-carries-previous-users-body", "call %s got result %q", c.tag, c.res.String())
			}
			// the swap of the completed call still holds what the caller's plugin put there and nothing that any
			// later user of a pooled context stored
			if w, ok := c.cmd.(interface{ Swap() goutil.Map }); ok && c.cmd != nil {
				if v, _ := w.Swap().Load("c20-trace"); v != "trace-of-"+c.tag {
					e.Fail("C20/completed-call-swap-changed", "call %s: the swap of the completed call holds trace=%v, its plugin stored %q", c.tag, v, "trace-of-"+c.tag)
				}
				for _, k := range []string{"handler-left-this", "plugin-left-this"} {
					if v, ok := w.Swap().Load(k); ok {
						e.Fail("C20/completed-call-swap-changed", "call %s: the swap of the completed call holds %s=%v, stored by a later user of a pooled context", c.tag, k, v)
					}
				}
			}
			if !c.ok && (c.code < 3000 || c.code > 3010) && c.code != 0 {
				e.Fail("C20/unexpected-status", "call %s: code %d", c.tag, c.code)
			}
		}
		e.CloseAll()
	})
	rep.Sample = rep.Cell
	return finish(rep, out)
}

// c20Tracer is a caller-side plugin that keeps per-call data in the call's swap.
type c20Tracer struct{}

func (c20Tracer) Name() string { return "c20-tracer" }
func (c20Tracer) PreWriteCall(c erpc.WriteCtx) *erpc.Status {
	if mk := c.Output().Meta().Peek("Mk"); len(mk) > 0 {
		c.Swap().Store("c20-trace", "trace-of-"+string(mk))
	}
	return nil
}

// c20Greeter is a PostAccept plugin that greets a new connection through the pre-session API.
type c20Greeter struct {
	mode         int // 0 off, 1 PreSend, 2 RawPush
	sent, failed int
}

func (g *c20Greeter) Name() string { return "c20-greeter" }
func (g *c20Greeter) PostAccept(s erpc.PreSession) *erpc.Status {
	var st *erpc.Status
	switch g.mode {
	case 0:
		return nil
	case 1:
		st = s.PreSend(erpc.TypePush, "/greet", []byte("hello from the server"), nil, erpc.WithBodyCodec('s'), erpc.WithAddMeta("Owner", "greeter"))
	case 2:
		st = s.RawPush("/greet", []byte("hello from the server"), erpc.WithBodyCodec('s'), erpc.WithAddMeta("Owner", "greeter"))
	}
	g.sent++
	if !st.OK() {
		g.failed++
	}
	return nil
}
