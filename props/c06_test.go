package props

import (
	"encoding/binary"
	"fmt"
	"strings"
	"testing"
	"time"

	erpc "github.com/henrylee2cn/erpc/v6"
	"github.com/henrylee2cn/erpc/v6/socket"

	"simrt"
	"verif/simnet"
	"verif/world"
)

// C06 - no received byte sequence crashes, wedges or over-allocates a peer.
//
// Victim: a real peer with a small per-run read limit; a well-behaved control client keeps calling it
// on its own session throughout.  Attacker: a scripted raw connection that feeds random bytes, valid
// frames mutated (bit flips, length fields at every boundary up to 2^32-1, filter-list length beyond the
// frame, truncation), an oversized single message, then EOF or silence - against a server-side session, or
// as hostile replies against a client-side session with calls pending.  Every stream protocol.
// Oracle: no panic escapes; at quiescence nothing is parked for good and the attacked session is either
// healthy (answers a fresh call) or disconnected with its close notification fired; every control
// call is OK; no buffer request above limit+slack (probe in ByteBuffer.ChangeLen, which aborts the
// request); after an announced size above the limit the victim consumed no more than one buffered-reader
// fill beyond the announcing field; a single never-ending message is cut off at limit+slack.

func init() { register(&Prop{ID: "C06", Run: runC06}) }

type c06Step struct {
	kind string
	a, b int
}

func runC06(t *testing.T, seed uint64, m *Mask) *Report {
	sc, nc, r := swarm(seed, m)
	opt := world.Options{Seed: seed, Sim: sc, Net: nc}
	opt.ReaderSize = []int{16, 64, 256}[r.Intn(3)]
	limits := []uint32{256, 512, 1024, 4096, 65536}
	opt.Limit = limits[r.Intn(len(limits))]
	if nc.SegMode == 2 && opt.Limit > 4096 {
		opt.Limit = 4096 // bytewise delivery of 100k+ bytes would only hit the step cap
	}
	protos := world.StreamProtos()
	proto := protos[r.Intn(len(protos))]
	clientVictim := r.Chance(0.35)
	kinds := []string{"valid", "valid", "bitflip", "bitflip", "lenfield", "lenfield", "xferlen", "trunc", "garbage", "oversize", "huge_announce", "dup", "bigframe"}
	n := 1 + r.Intn(6)
	var steps []c06Step
	for i := 0; i < n; i++ {
		steps = append(steps, c06Step{kind: kinds[r.Intn(len(kinds))], a: r.Intn(1 << 20), b: r.Intn(1 << 20)})
	}
	end := []string{"eof", "eof", "silence"}[r.Intn(3)]
	if clientVictim {
		end = "eof"
	}
	rep := &Report{NOps: len(steps)}
	rep.Cell = fmt.Sprintf("%s,limit=%d,clientVictim=%v,end=%s", proto, opt.Limit, clientVictim, end)
	var trace []string
	slack := 512 // header fields, status, metadata that accompany the announced payload

	out := world.Run(t, opt, func(e *world.Env) {
		e.AllowUnknownArgs = true
		limit := int(opt.Limit)
		maxAlloc := 0
		simrt.SetAllocProbe(func(n int) {
			if n > maxAlloc {
				maxAlloc = n
			}
			if n > limit+slack {
				e.Fail("C06/buffer-request-above-limit:"+proto, "the receive path asked for a %d byte buffer; the read limit is %d | attack: %s", n, limit, strings.Join(trace, " "))
				panic(fmt.Sprintf("verif: buffer request of %d bytes aborted (limit %d)", n, limit))
			}
		})
		defer simrt.SetAllocProbe(nil)
		pf := world.ProtoFunc(proto)
		victim := e.NewPeer("victim", erpc.PeerConfig{})
		rt := e.RegisterStd(victim)
		// control session
		ctl := e.NewPeer("control", erpc.PeerConfig{})
		ctlSess, _, _, _ := e.ServePair(ctl, victim, pf, pf)
		stopCtl, ctlDone, attackDone := false, false, false
		ctlN := 0
		extra := 0
		simrt.GoNamed("control-caller", func() {
			defer func() { ctlDone = true }()
			for i := 0; !stopCtl && i < 400; i++ {
				if attackDone {
					if extra++; extra > 3 {
						return
					}
				}
				op := &world.Op{Idx: 5000 + i, Tag: fmt.Sprintf("T%x.ctl%d", seed&0xffffff, i), Kind: "call", Route: "echo", Data: "ctl", MetaK: "Mk", MetaV: "v", Codec: 'j'}
				if proto == "thrift-struct" {
					op.Codec = 't'
				}
				e.OpByTag[op.Tag] = op
				e.Issue(ctlSess, rt, op, nil)
				ctlN++
				if !op.OK || op.Result.Tag != op.Tag {
					e.Fail("C06/control-session-disturbed:"+proto, "control call %d failed: ok=%v %d %q %q | attack: %s", i, op.OK, op.Code, op.Msg, op.Cause, strings.Join(trace, " "))
					return
				}
				simrt.Sleep(200 * 1000) // 200us
			}
		})
		// a template of valid frames for this protocol
		bigData := 0
		frame := func(i int) []byte {
			ca, _ := e.Net.Pair()
			tmp := world.NewRawPeer(ca, pf)
			p := &world.Payload{Tag: fmt.Sprintf("atk%d", i), Data: world.GenString(e.Gen, e.Gen.Intn(80), "abcdef")}
			if bigData > 0 {
				p.Data = world.GenString(e.Gen, bigData, "abcdefghijklmnopqrstuvwxyzABCDEFGHIJKLMNOPQRSTUVWXYZ0123456789")
			}
			if e.Gen.Chance(0.5) {
				// a slow handler: its reply is written while later bytes of the attack stream are still arriving
				e.OpByTag[p.Tag] = &world.Op{Idx: 7000 + i, Tag: p.Tag, HSleep: time.Duration(1+e.Gen.Intn(6)) * time.Millisecond}
			}
			mtype := erpc.TypeCall
			method := rt.Echo
			if clientVictim {
				mtype, method = erpc.TypeReply, ""
			}
			var body interface{} = world.Encode('j', p)
			codec := byte('j')
			if proto == "thrift-struct" {
				body, codec = p, 't'
			} else if !clientVictim && bigData == 0 && e.Gen.Chance(0.25) {
				// a byte-stream body for the handler that takes raw bytes: any byte value may occur
				raw := make([]byte, 1+e.Gen.Intn(60))
				e.Gen.Bytes(raw)
				method, codec, body = rt.Bytes, 's', append([]byte(p.Tag+";"), raw...)
			}
			var pipe []byte
			if proto != "thrift-struct" && proto != "http" && bigData == 0 && e.Gen.Chance(0.3) {
				pipe = []byte{world.FGzip5}
			}
			tmp.Send(mtype, int32(1+i), method, codec, body, nil, [][2]string{{"Mk", "v"}}, pipe)
			b := append([]byte(nil), ca.Sent()...)
			ca.Close()
			return b
		}
		// well-formed frames far above the limit are built with the limit lifted (the attacker is not bound by
		// the victim's configuration; the limit is process-wide in teleport)
		bigFrames := map[int][]byte{}
		for i, s := range steps {
			if s.kind == "bigframe" && !m.opDropped(i) {
				bigData = 5 * (limit + 4096)
				if bigData > 200000 {
					bigData = 200000
				}
				socket.SetMessageSizeLimit(1 << 30)
				bigFrames[i] = frame(i)
				socket.SetMessageSizeLimit(uint32(limit))
				bigData = 0
			}
		}
		// the attacked session
		atk, vic := e.Net.Pair()
		var vsess erpc.Session
		var st *erpc.Status
		vsess, st = victim.ServeConn(vic, pf)
		if !st.OK() {
			e.Fail("infra-session-setup", "ServeConn: %v", st)
			return
		}
		var pending []*world.Op
		if clientVictim {
			// the victim has calls pending on the attacked session: the attacker plays the server
			for i := 0; i < 2; i++ {
				op := &world.Op{Idx: 6000 + i, Tag: fmt.Sprintf("T%x.vic%d", seed&0xffffff, i), Kind: "async", Route: "echo", Data: "x", MetaK: "Mk", MetaV: "v", Codec: 'j'}
				if proto == "thrift-struct" {
					op.Codec = 't'
				}
				e.OpByTag[op.Tag] = op
				pending = append(pending, op)
				simrt.GoNamed("victim-caller", func() { e.Issue(vsess, world.Routes{Echo: "/std/echo"}, op, nil) })
			}
		}
		consumedLimit := int64(-1) // upper bound on what the victim may consume from the attack stream (-1: unbounded)
		sent := 0
		write := func(b []byte) {
			atk.Write(b)
			sent += len(b)
		}
		simrt.GoNamed("attacker", func() {
			// drain whatever the victim sends so that it never blocks on us
			simrt.GoNamed("attacker-drain", func() {
				buf := make([]byte, 4096)
				for {
					if _, err := atk.Read(buf); err != nil {
						return
					}
				}
			})
			truncated := false
			inSync := true // the victim is at a frame boundary (only well-formed frames so far)
			for i, s := range steps {
				if m.opDropped(i) || truncated {
					continue
				}
				f := frame(i)
				trace = append(trace, s.kind)
				switch s.kind {
				case "valid":
					write(f)
				case "dup":
					write(f)
					write(f)
				case "bitflip":
					k := 1 + s.b%3
					for j := 0; j < k; j++ {
						pos := (s.a + j*7919) % len(f)
						if strings.HasPrefix(proto, "thrift") && len(f) > 48 {
							// the thrift header transport writes its info headers in Go map order, so the middle of a
							// frame is not a function of the seed: flip only in the fixed-layout head or in the tail
							if q := (s.a + j*7919) % 38; q < 14 {
								pos = q
							} else {
								pos = len(f) - 38 + q
							}
						}
						f[pos] ^= 1 << uint((s.b+j)%8)
					}
					write(f)
				case "lenfield":
					if len(f) >= 4 {
						vals := []uint32{0, 1, 3, 4, 5, uint32(limit) - 1, uint32(limit), uint32(limit) + 1, 1<<31 - 1, 1 << 31, 0xFFFFFFFB, 0xFFFFFFFC, 0xFFFFFFFE, 0xFFFFFFFF, uint32(len(f)) - 5, uint32(len(f)) + 1, uint32(limit) * 4, uint32(limit)*16 + 777}
						v := vals[s.a%len(vals)]
						trace[len(trace)-1] = fmt.Sprintf("lenfield=%d", v)
						binary.BigEndian.PutUint32(f, v)
						clearly := int(v) > limit
						if strings.HasPrefix(proto, "thrift") {
							clearly = int64(v) > int64(limit+slack+4096) // beyond any header overhead and transport prefetch
						}
						if clearly && consumedLimit < 0 && inSync && proto != "http" {
							consumedLimit = int64(sent + 4 + opt.ReaderSize)
							if strings.HasPrefix(proto, "thrift") {
								// the thrift library reads the announced frame itself; teleport can only stop feeding it:
								// at most the limit plus the header transport's read-ahead is pulled for one message
								consumedLimit += int64(limit + 2*4096 + slack)
							}
						}
					}
					write(f)
					// payload that must not be consumed if the announced size was refused
					if strings.HasPrefix(proto, "thrift") {
						// in pieces, over some milliseconds: replies of slow handlers are written in between
						for k := 0; k < 4; k++ {
							write(make([]byte, limit+4096))
							simrt.Sleep(time.Duration(500+e.Gen.Intn(2000)) * time.Microsecond)
						}
					} else {
						write(make([]byte, 3*opt.ReaderSize))
					}
				case "xferlen":
					if len(f) > 5 {
						f[4] = byte(200 + s.a%56)
					}
					write(f)
				case "trunc":
					cut := s.a % len(f)
					if strings.HasPrefix(proto, "thrift") && len(f) > 48 && cut > 14 && cut < len(f)-24 {
						cut = 14 + s.a%2 // see above: do not cut inside the map-ordered header block
					}
					write(f[:cut])
					truncated = true
				case "garbage":
					g := make([]byte, 1+s.a%300)
					e.Gen.Bytes(g)
					write(g)
				case "huge_announce":
					// a frame header announcing far more than the limit, followed by payload
					switch proto {
					case "raw", "json", "pb":
						h := make([]byte, 4)
						binary.BigEndian.PutUint32(h, uint32(limit)*4+uint32(s.a%1000))
						write(h)
						if consumedLimit < 0 && inSync {
							consumedLimit = int64(sent + opt.ReaderSize)
						}
					case "http":
						// announced lengths: a few times the limit, and values around the 32-bit boundary
						cl := []uint64{uint64(limit) * 4, uint64(limit)*4 + 1, 1<<32 - 1, 1 << 32, 1<<32 + uint64(limit)/2, 1<<32 + 100, 1<<31 + 5, 1<<63 - 1}[s.a%8]
						hdr := "Content-Type: application/json\r\n"
						if s.b%2 == 0 {
							hdr = "" // with and without a content type ahead of the length
						}
						write([]byte(fmt.Sprintf("POST /std/echo HTTP/1.1\r\n%sContent-Length: %d\r\nX-Seq: 9\r\nX-Mtype: 1\r\n\r\n", hdr, cl)))
						if consumedLimit < 0 && inSync {
							consumedLimit = int64(sent + opt.ReaderSize)
						}
					default:
						write(f)
					}
					write(make([]byte, limit*2))
				case "bigframe":
					// a well-formed frame several times the limit, streamed in pieces over some milliseconds while
					// replies of earlier slow handlers are still being written on the same connection
					big := bigFrames[i]
					if consumedLimit < 0 && inSync && proto != "http" {
						consumedLimit = int64(sent + 4 + opt.ReaderSize)
						if strings.HasPrefix(proto, "thrift") {
							consumedLimit += int64(limit + 2*4096 + slack)
						}
					}
					for len(big) > 0 {
						k := limit/2 + 1024
						if k > len(big) {
							k = len(big)
						}
						write(big[:k])
						big = big[k:]
						simrt.Sleep(time.Duration(200+e.Gen.Intn(1500)) * time.Microsecond)
					}
				case "oversize":
					// one message that never ends: far more than the limit without a frame boundary
					switch proto {
					case "http":
						write([]byte("POST /std/echo HTTP/1.1\r\nX-Long: "))
						if consumedLimit < 0 && inSync {
							consumedLimit = int64(sent + limit + slack + opt.ReaderSize)
						}
						write([]byte(strings.Repeat("a", limit*3)))
					default:
						write(f)
					}
				}
				if s.kind != "valid" && s.kind != "dup" {
					inSync = false
				}
				simrt.YieldN(e.Gen.Intn(5))
			}
			if end == "eof" {
				atk.Close()
			}
			attackDone = true
		})
		simrt.WaitQuiescent()
		stopCtl = true
		simrt.WaitQuiescent()
		attack := strings.Join(trace, " ")
		e.CheckSettled("C06/task-stuck-at-quiescence:"+proto, "| attack: "+attack)
		if !ctlDone {
			e.Fail("C06/control-session-disturbed:"+proto, "the control caller is still waiting for a reply at quiescence (%d calls done) | attack: %s", ctlN, attack)
		}
		for _, op := range pending {
			if op.Issued && !op.Done {
				e.Fail("C06/caller-hangs:"+proto, "a call pending on the attacked session never completed although the attacker closed the connection | attack: %s", attack)
			}
		}
		if consumedLimit >= 0 && vic.Received() > consumedLimit {
			e.Fail("C06/payload-consumed-after-oversize-announcement:"+proto, "the victim consumed %d bytes of the attack stream; after the announcement it may take at most %d (limit %d, reader %d) | attack: %s", vic.Received(), consumedLimit, limit, opt.ReaderSize, attack)
		}
		// the attacked session: healthy and serving, or cleanly disconnected
		if vsess.Health() {
			if end == "eof" {
				e.Fail("C06/session-healthy-after-eof:"+proto, "the attacker closed the connection but the session still reports healthy | attack: %s", attack)
			}
		} else {
			select {
			case <-vsess.CloseNotify():
			default:
				e.Fail("C06/disconnected-without-close-notify:"+proto, "the attacked session is unhealthy but its close notification has not fired | attack: %s", attack)
			}
			if _, ok := victim.GetSession(vsess.ID()); ok {
				e.Fail("C06/dead-session-still-indexed:"+proto, "the attacked session is dead but still in the index | attack: %s", attack)
			}
		}
		// the victim as a whole still works: a fresh client gets served
		fresh := e.NewPeer("fresh", erpc.PeerConfig{})
		fs, _, _, _ := e.ServePair(fresh, victim, pf, pf)
		op := &world.Op{Idx: 7000, Tag: fmt.Sprintf("T%x.fresh", seed&0xffffff), Kind: "call", Route: "echo", Data: "fresh", MetaK: "Mk", MetaV: "v", Codec: 'j'}
		if proto == "thrift-struct" {
			op.Codec = 't'
		}
		e.OpByTag[op.Tag] = op
		e.Issue(fs, rt, op, nil)
		if !op.OK || op.Result.Tag != op.Tag {
			e.Fail("C06/victim-no-longer-serves:"+proto, "a fresh session on the victim failed after the attack: %d %q %q | attack: %s", op.Code, op.Msg, op.Cause, attack)
		}
		e.Probe(fmt.Sprintf("maxalloc<=%d", 1<<bitsFor(maxAlloc)))
		atk.Close()
		e.CloseAll()
	})
	rep.Sample = rep.Cell + " attack: " + strings.Join(trace, " ")
	return finish(rep, out)
}

func bitsFor(n int) uint {
	b := uint(0)
	for b < 62 && (1<<b) < n {
		b++
	}
	return b
}

var _ = simnet.Config{}
