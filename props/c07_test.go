package props

import (
	"fmt"
	"sort"
	"strings"
	"testing"
	"time"

	erpc "github.com/henrylee2cn/erpc/v6"

	"simrt"
	"verif/simnet"
	"verif/world"
)

// C07 - session lifecycle follows one state machine; the session index is exact.
//
// Histories over {dial/accept, hook reject, SetID fresh/colliding, call, push, local Close (also two
// at once), remote Close, cut, peer Close} on one server and 1-2 clients, with concurrent Close vs
// disconnect races decided by the scheduler at every status load/store/CAS.
// Oracles: (1) reference model of the status machine fed by the H3 transition log (allowed edges,
// closed states absorbing); (2) hook/handler order: no per-message stage or handler on a session
// before its accept/dial hook, none at all on a rejected one; (3) CloseNotify once, PostDisconnect
// exactly once per established session and at most once per rejected one; (4) after close: unhealthy,
// calls and pushes fail fast with 102 and start no handler; (5) at every quiescent point the index
// of each peer (Range/Count/Get) equals the model's set of live sessions under their current ids.

func init() { register(&Prop{ID: "C07", Run: runC07}) }

type c07End struct {
	sess   erpc.Session
	peer   int // index into peers
	key    string
	id     string // model's current id
	live   bool
	estab  bool
	pair   *c07Pair
	closed bool // we observed/know it is closed (model)
}

type c07Pair struct {
	idx      int
	cli, srv *c07End
	conn     *simnet.Conn // client end
	rejected string       // "", "accept", "dial"
}

type c07Op struct {
	kind string
	a, b int
	s    string
}

var statusNames = []string{"preparing", "ok", "activeClosing", "activeClosed", "passiveClosing", "passiveClosed", "redialing", "redialFailed"}

func stName(s int32) string {
	if s >= 0 && int(s) < len(statusNames) {
		return statusNames[s]
	}
	return fmt.Sprint(s)
}

func runC07(t *testing.T, seed uint64, m *Mask) *Report {
	sc, nc, r := swarm(seed, m)
	opt := world.Options{Seed: seed, Sim: sc, Net: nc}
	proto := []string{"raw", "raw", "json", "pb", "thrift-binary"}[r.Intn(5)]
	nCli := 1 + r.Intn(2)
	nOps := 4 + r.Intn(14)
	var ops []c07Op
	kinds := []string{"dial", "dial", "dial", "dial_reject_accept", "dial_reject_dial", "setid_fresh", "setid_collide", "call", "call", "push", "close_cli", "close_srv", "close_twice", "cut", "close_vs_cut", "close_vs_remote_close", "call_vs_close", "setid_vs_close", "dial_age", "dial_age", "push_vs_remote_close", "push_vs_cut", "call_vs_remote_close", "dial_retry_after_reject"}
	for i := 0; i < nOps; i++ {
		ops = append(ops, c07Op{kind: kinds[r.Intn(len(kinds))], a: r.Intn(1000), b: r.Intn(1000), s: fmt.Sprintf("id%d", r.Intn(4))})
	}
	if r.Chance(0.3) {
		ops = append(ops, c07Op{kind: "peer_close", a: r.Intn(1000)})
	}
	rep := &Report{NOps: len(ops)}
	rep.Cell = proto
	var trace []string

	out := world.Run(t, opt, func(e *world.Env) {
		e.AllowUnknownArgs = true
		rejectAccept, rejectDial := false, false
		hookYield := 0
		mkRec := func(name string) *world.Recorder {
			return &world.Recorder{PName: name, Env: e, Verdict: func(stage string, mtype byte, method string, seq int32) *erpc.Status {
				switch stage {
				case "PostAccept":
					simrt.YieldN(hookYield)
					if rejectAccept {
						rejectAccept = false
						return erpc.NewStatus(1401, "accept refused", "")
					}
				case "PostDial":
					simrt.YieldN(hookYield)
					if rejectDial {
						rejectDial = false
						return erpc.NewStatus(1402, "dial refused", "")
					}
				}
				return nil
			}}
		}
		// an accept hook placed before the refusing one names the session (as an identify/auth plugin would):
		// a connection refused afterwards must still vanish from the index
		namer := &c07Namer{on: func() bool { return rejectAccept && e.Gen.Chance(0.5) }}
		// a connection hook may give a session a maximum age (a read deadline on the simulated clock): when it
		// runs out the reader gives up on an intact connection - a disconnect like any other
		ages := []*world.AgeHook{{}}
		peers := []erpc.Peer{e.NewPeer("srv", erpc.PeerConfig{}, namer, ages[0], mkRec("rec-srv"))}
		routes := []world.Routes{e.RegisterStd(peers[0])}
		for i := 0; i < nCli; i++ {
			dnamer := &c07Namer{on: func() bool { return rejectDial && e.Gen.Chance(0.5) }}
			ages = append(ages, &world.AgeHook{})
			p := e.NewPeer(fmt.Sprintf("cli%d", i), erpc.PeerConfig{}, dnamer, ages[i+1], mkRec(fmt.Sprintf("rec-cli%d", i)))
			peers = append(peers, p)
			routes = append(routes, e.RegisterStd(p))
		}
		// one more client whose Dial retries (RedialTimes also is the number of further dial attempts): a dial hook
		// that refuses the first attempt and accepts the next one yields an ordinary fresh session
		retryCli := len(peers)
		peers = append(peers, e.NewPeer("cli-retry", erpc.PeerConfig{RedialTimes: 2, RedialInterval: 5 * time.Millisecond}, mkRec("rec-cli-retry")))
		routes = append(routes, e.RegisterStd(peers[retryCli]))
		pf := world.ProtoFunc(proto)
		e.Serve(peers[0], "10.9.0.1:9000", pf)
		var pairs []*c07Pair
		var ends []*c07End
		tagN := 0
		liveEnds := func() []*c07End {
			var out []*c07End
			for _, x := range ends {
				if x.live {
					out = append(out, x)
				}
			}
			return out
		}
		kill := func(p *c07Pair) { // model: both ends are gone once the system settles
			p.cli.live, p.srv.live = false, false
		}
		issue := func(x *c07End, kind string) *world.Op {
			tagN++
			op := &world.Op{Idx: 1000 + tagN, Tag: fmt.Sprintf("T%x.c%d", seed&0xffffff, tagN), Kind: kind, Route: "echo", Data: "d", MetaK: "Mk", MetaV: "v", Codec: 'j'}
			if kind == "push" {
				op.Route = "note"
			}
			e.OpByTag[op.Tag] = op
			other := 0
			if x.peer == 0 {
				other = x.pair.cli.peer
			}
			e.Issue(x.sess, routes[other], op, nil)
			return op
		}
		checkIndex := func(when string) {
			for pi, p := range peers {
				want := map[string]*c07End{}
				for _, x := range liveEnds() {
					if x.peer == pi {
						want[x.id] = x
					}
				}
				got := map[string]erpc.Session{}
				p.RangeSession(func(s erpc.Session) bool { got[s.ID()] = s; return true })
				var diff []string
				for id, x := range want {
					if got[id] == nil {
						diff = append(diff, fmt.Sprintf("missing %s(%s)", id, x.key))
					} else if got[id] != x.sess {
						diff = append(diff, fmt.Sprintf("id %s maps to another session", id))
					}
					if s, ok := p.GetSession(id); !ok || s != x.sess {
						diff = append(diff, fmt.Sprintf("GetSession(%s) wrong (found=%v)", id, ok))
					}
				}
				for id, s := range got {
					if want[id] == nil {
						diff = append(diff, fmt.Sprintf("stale %s(%s health=%v)", id, world.SessKey(s), s.Health()))
					}
				}
				if n := p.CountSession(); n != len(want) {
					diff = append(diff, fmt.Sprintf("CountSession=%d want %d", n, len(want)))
				}
				if len(diff) > 0 {
					sort.Strings(diff)
					e.Fail("C07/index-not-exact", "peer %s %s: %s | history: %s", e.Obs.PeerName(p), when, strings.Join(diff, "; "), strings.Join(trace, " "))
				}
			}
			for _, x := range ends {
				if !x.estab {
					continue
				}
				if x.live != x.sess.Health() {
					e.Fail("C07/health-disagrees-with-model", "session %s: Health()=%v, model live=%v %s | history: %s", x.key, x.sess.Health(), x.live, when, strings.Join(trace, " "))
				}
			}
		}
		pick := func(n int) *c07End {
			l := liveEnds()
			if len(l) == 0 {
				return nil
			}
			return l[n%len(l)]
		}
		for oi, op := range ops {
			if m.opDropped(oi) {
				continue
			}
			hookYield = op.b % 4
			trace = append(trace, op.kind)
			switch op.kind {
			case "dial", "dial_reject_accept", "dial_reject_dial":
				ci := 1 + op.a%nCli
				rejectAccept = op.kind == "dial_reject_accept"
				rejectDial = op.kind == "dial_reject_dial"
				nConnBefore := len(e.Net.Conns)
				s, st := peers[ci].Dial("10.9.0.1:9000", pf)
				pr := &c07Pair{idx: len(pairs)}
				if len(e.Net.Conns) > nConnBefore {
					pr.conn = e.Net.Conns[nConnBefore]
				}
				pairs = append(pairs, pr)
				if op.kind == "dial_reject_dial" {
					if st.OK() {
						e.Fail("C07/dial-hook-reject-ignored", "PostDial returned an error but Dial succeeded")
					}
					rejectDial = false
					simrt.WaitQuiescent()
					checkIndex("after rejected dial")
					continue
				}
				if !st.OK() {
					e.Fail("infra-dial-failed", "dial: %v", st)
					continue
				}
				cli := &c07End{sess: s, peer: ci, key: world.SessKey(s), id: s.LocalAddr().String(), live: true, estab: true, pair: pr}
				pr.cli = cli
				ends = append(ends, cli)
				simrt.WaitQuiescent()
				if op.kind == "dial_reject_accept" {
					// the server refused: after settling the client end is dead too
					pr.rejected = "accept"
					cli.live = false
					pr.srv = &c07End{peer: 0, pair: pr}
					checkIndex("after rejected accept")
					continue
				}
				srvS := e.FindSession(peers[0], s.LocalAddr().String())
				if srvS == nil {
					e.Fail("C07/accepted-session-not-indexed", "server has no session for %s after the dial settled | history: %s", s.LocalAddr(), strings.Join(trace, " "))
					cli.live = false
					continue
				}
				srv := &c07End{sess: srvS, peer: 0, key: world.SessKey(srvS), id: srvS.RemoteAddr().String(), live: true, estab: true, pair: pr}
				pr.srv = srv
				ends = append(ends, srv)
				checkIndex("after dial")
			case "setid_fresh", "setid_collide":
				x := pick(op.a)
				if x == nil {
					continue
				}
				newID := fmt.Sprintf("fresh-%d", oi)
				if op.kind == "setid_collide" {
					// collide with another live session of the same peer, if any
					var victim *c07End
					for _, y := range liveEnds() {
						if y != x && y.peer == x.peer {
							victim = y
							break
						}
					}
					if victim == nil {
						continue
					}
					newID = victim.id
					kill(victim.pair) // takeover closes the older session
				}
				x.sess.SetID(newID)
				x.id = newID
				simrt.WaitQuiescent()
				checkIndex("after " + op.kind)
			case "call", "push":
				x := pick(op.a)
				if x == nil {
					continue
				}
				o := issue(x, op.kind)
				if !o.OK {
					e.Fail("C07/op-failed-on-live-session", "%s on live session %s failed: %d %s | history: %s", op.kind, x.key, o.Code, o.Msg, strings.Join(trace, " "))
				}
			case "close_cli", "close_srv", "close_twice":
				x := pick(op.a)
				if x == nil {
					continue
				}
				if op.kind == "close_twice" {
					done := 0
					for k := 0; k < 2; k++ {
						simrt.GoNamed("closer", func() { x.sess.Close(); done++ })
					}
					simrt.WaitCond(func() bool { return done == 2 })
				} else {
					x.sess.Close()
				}
				kill(x.pair)
				if x.sess.Health() {
					e.Fail("C07/healthy-after-close", "session %s reports healthy right after Close returned", x.key)
				}
				simrt.WaitQuiescent()
				checkIndex("after " + op.kind)
			case "cut":
				x := pick(op.a)
				if x == nil || x.pair.conn == nil {
					continue
				}
				x.pair.conn.CutNow()
				kill(x.pair)
				simrt.WaitQuiescent()
				checkIndex("after cut")
			case "push_vs_remote_close", "push_vs_cut", "call_vs_remote_close":
				// a message is on its way (or just read, its handler not yet running) when the receiving side closes
				// the session or the connection is lost: once the close has completed no handler may start
				x := pick(op.a)
				if x == nil || x.pair.conn == nil {
					continue
				}
				other := x.pair.cli
				if x == other {
					other = x.pair.srv
				}
				done := 0
				n := 1 + op.b%3
				simrt.GoNamed("racer-a", func() {
					for k := 0; k < n; k++ {
						issue(x, map[bool]string{true: "call", false: "push"}[op.kind == "call_vs_remote_close"])
					}
					done++
				})
				simrt.GoNamed("racer-b", func() {
					simrt.YieldN(op.a % 23)
					if op.kind == "push_vs_cut" {
						x.pair.conn.CutNow()
					} else {
						other.sess.Close()
					}
					done++
				})
				simrt.WaitCond(func() bool { return done == 2 })
				kill(x.pair)
				simrt.WaitQuiescent()
				checkIndex("after " + op.kind)
			case "close_vs_cut", "close_vs_remote_close", "call_vs_close", "setid_vs_close":
				x := pick(op.a)
				if x == nil || x.pair.conn == nil {
					continue
				}
				other := x.pair.cli
				if x == other {
					other = x.pair.srv
				}
				done := 0
				simrt.GoNamed("racer-a", func() { simrt.YieldN(op.b % 7); x.sess.Close(); done++ })
				switch op.kind {
				case "close_vs_cut":
					simrt.GoNamed("racer-b", func() { simrt.YieldN(op.a % 7); x.pair.conn.CutNow(); done++ })
				case "close_vs_remote_close":
					simrt.GoNamed("racer-b", func() { simrt.YieldN(op.a % 7); other.sess.Close(); done++ })
				case "call_vs_close":
					simrt.GoNamed("racer-b", func() { simrt.YieldN(op.a % 7); issue(x, "call"); done++ })
				case "setid_vs_close":
					simrt.GoNamed("racer-b", func() { simrt.YieldN(op.a % 7); x.sess.SetID(fmt.Sprintf("late-%d", oi)); done++ })
				}
				simrt.WaitCond(func() bool { return done == 2 })
				kill(x.pair)
				simrt.WaitQuiescent()
				checkIndex("after " + op.kind)
			case "dial_retry_after_reject":
				rejectDial = true
				nConnBefore := len(e.Net.Conns)
				s, st := peers[retryCli].Dial("10.9.0.1:9000", pf)
				rejectDial = false
				pr := &c07Pair{idx: len(pairs)}
				if n := len(e.Net.Conns); n > nConnBefore {
					pr.conn = e.Net.Conns[n-1]
				}
				pairs = append(pairs, pr)
				if !st.OK() {
					e.Fail("C07/dial-retry-failed", "a Dial with two further attempts failed although the hook refused only the first one: %v | history: %s", st, strings.Join(trace, " "))
					continue
				}
				cli := &c07End{sess: s, peer: retryCli, key: world.SessKey(s), id: s.LocalAddr().String(), live: true, estab: true, pair: pr}
				pr.cli = cli
				ends = append(ends, cli)
				simrt.WaitQuiescent()
				srvS := e.FindSession(peers[0], s.LocalAddr().String())
				if srvS == nil {
					e.Fail("C07/accepted-session-not-indexed", "server has no session for %s after the retried dial settled | history: %s", s.LocalAddr(), strings.Join(trace, " "))
					cli.live = false
					continue
				}
				srv := &c07End{sess: srvS, peer: 0, key: world.SessKey(srvS), id: srvS.RemoteAddr().String(), live: true, estab: true, pair: pr}
				pr.srv = srv
				ends = append(ends, srv)
				checkIndex("after dial_retry_after_reject")
				select {
				case <-s.CloseNotify():
					e.Fail("C07/close-notify-on-live-session", "the close notification of the freshly dialled, healthy session %s has already fired | history: %s", cli.key, strings.Join(trace, " "))
				default:
				}
				if o := issue(cli, "call"); !o.OK {
					e.Fail("C07/op-failed-on-live-session", "call on the freshly dialled session %s failed: %d %s | history: %s", cli.key, o.Code, o.Msg, strings.Join(trace, " "))
				}
				// this client redials lost connections, which the model of the other operations does not cover: the
				// session is closed locally before the history goes on
				s.Close()
				kill(pr)
				simrt.WaitQuiescent()
				checkIndex("after closing the retried session")
			case "dial_age":
				// a new session whose client or server end has a maximum age; optionally a local Close, a call or a
				// SetID lands at the very instant the age runs out.  Then the system settles: both ends are gone
				ci := 1 + op.a%nCli
				aged := ages[[]int{0, ci}[op.b%2]]
				aged.Next = time.Duration(1+op.b%7) * 30 * time.Millisecond
				nConnBefore := len(e.Net.Conns)
				s, st := peers[ci].Dial("10.9.0.1:9000", pf)
				pr := &c07Pair{idx: len(pairs)}
				if len(e.Net.Conns) > nConnBefore {
					pr.conn = e.Net.Conns[nConnBefore]
				}
				pairs = append(pairs, pr)
				if !st.OK() {
					e.Fail("infra-dial-failed", "dial: %v", st)
					aged.Next = 0
					continue
				}
				cli := &c07End{sess: s, peer: ci, key: world.SessKey(s), id: s.LocalAddr().String(), live: true, estab: true, pair: pr}
				pr.cli = cli
				ends = append(ends, cli)
				want := s.LocalAddr().String()
				e.Until(func() bool { x := e.FindSession(peers[0], want); return x != nil && x.Health() })
				srvS := e.FindSession(peers[0], want)
				aged.Next = 0
				if srvS == nil {
					e.Fail("C07/accepted-session-not-indexed", "server has no session for %s | history: %s", want, strings.Join(trace, " "))
					cli.live = false
					continue
				}
				srv := &c07End{sess: srvS, peer: 0, key: world.SessKey(srvS), id: srvS.RemoteAddr().String(), live: true, estab: true, pair: pr}
				pr.srv = srv
				ends = append(ends, srv)
				e.Net.Fault("session_age")
				x := []*c07End{cli, srv}[op.a%2]
				if racer := op.a % 4; racer != 3 {
					done := 0
					simrt.GoNamed("racer-b", func() {
						simrt.Sleep(time.Until(aged.Deadline) - time.Duration(op.b%2)*time.Microsecond)
						simrt.YieldN(op.a % 5)
						switch racer {
						case 0:
							x.sess.Close()
						case 1:
							issue(x, "call")
						case 2:
							x.sess.SetID(fmt.Sprintf("aged-%d", oi))
						}
						done++
					})
					simrt.WaitCond(func() bool { return done == 1 })
				}
				kill(pr)
				simrt.WaitQuiescent()
				checkIndex("after dial_age")
			case "peer_close":
				pi := op.a % len(peers)
				peers[pi].Close()
				for _, x := range ends {
					if x.peer == pi && x.live {
						kill(x.pair)
					}
				}
				simrt.WaitQuiescent()
				checkIndex("after peer_close")
			}
		}
		simrt.WaitQuiescent()
		e.CheckSettled("C07/task-stuck-at-quiescence")
		// ---- post-close behaviour ----
		handlersBefore := len(e.Obs.Handlers)
		for _, x := range ends {
			if !x.estab || x.live {
				continue
			}
			select {
			case <-x.sess.CloseNotify():
			default:
				e.Fail("C07/close-notify-missing", "session %s is closed but CloseNotify has not fired | history: %s", x.key, strings.Join(trace, " "))
			}
			o := issue(x, "call")
			if o.OK || o.Code != erpc.CodeConnClosed {
				e.Fail("C07/call-after-close-not-102", "call on closed session %s: ok=%v code=%d msg=%q | history: %s", x.key, o.OK, o.Code, o.Msg, strings.Join(trace, " "))
			}
			o = issue(x, "push")
			if o.OK || o.Code != erpc.CodeConnClosed {
				e.Fail("C07/push-after-close-not-102", "push on closed session %s: ok=%v code=%d msg=%q | history: %s", x.key, o.OK, o.Code, o.Msg, strings.Join(trace, " "))
			}
		}
		simrt.WaitQuiescent()
		if len(e.Obs.Handlers) != handlersBefore {
			e.Fail("C07/handler-started-after-close", "%d handler events were caused by operations on closed sessions", len(e.Obs.Handlers)-handlersBefore)
		}
		checkC07Logs(e, ends, pairs, trace)
		e.CloseAll()
	})
	rep.Sample = strings.Join(trace, " ")
	return finish(rep, out)
}

func checkC07Logs(e *world.Env, ends []*c07End, pairs []*c07Pair, trace []string) {
	hist := strings.Join(trace, " ")
	// (1) status machine
	allowed := map[[2]int32]bool{
		{0, 1}: true, {0, 2}: true, {1, 2}: true, {2, 3}: true, {1, 4}: true, {4, 5}: true,
	}
	cur := map[erpc.Session]int32{}
	for _, ev := range e.Obs.Status {
		from, ok := cur[ev.Sess]
		if !ok {
			from = 0
		}
		if ev.From >= 0 && ev.From != from {
			e.Fail("C07/status-model-mismatch", "session %s: CAS from %s but model says %s", world.SessKey(ev.Sess), stName(ev.From), stName(from))
		}
		if from == 3 || from == 5 {
			e.Fail("C07/closed-state-left", "session %s: %s -> %s | history: %s", world.SessKey(ev.Sess), stName(from), stName(ev.To), hist)
		} else if !allowed[[2]int32{from, ev.To}] {
			e.Fail("C07/illegal-status-edge", "session %s: %s -> %s | history: %s", world.SessKey(ev.Sess), stName(from), stName(ev.To), hist)
		}
		cur[ev.Sess] = ev.To
	}
	// (1b) once a session has reached a closed state no handler starts on it
	closedAt := map[string]int{}
	for _, ev := range e.Obs.Status {
		if ev.To == 3 || ev.To == 5 {
			k := e.Obs.PeerName(ev.Sess.Peer()) + "|" + world.SessKey(ev.Sess)
			if _, ok := closedAt[k]; !ok {
				closedAt[k] = ev.Step
			}
		}
	}
	for _, ev := range e.Obs.Handlers {
		if ev.Exit {
			continue
		}
		if at, ok := closedAt[ev.Peer+"|"+ev.Sess]; ok && at < ev.Step {
			e.Fail("C07/handler-started-on-closed-session", "a %s handler (%s) was entered at step %d on session %s, which had reached its closed state at step %d | history: %s", ev.Kind, ev.Method, ev.Step, ev.Sess, at, hist)
		}
	}
	// (2) hook order and (3) disconnect hook counts, per session key
	hookAt := map[string]int{}
	hookPeer := map[string]string{}
	disc := map[string]int{}
	for i, pe := range e.Obs.Plugins {
		k := pe.Peer + "|" + pe.Sess
		switch pe.Stage {
		case "PostAccept", "PostDial":
			if _, ok := hookAt[k]; !ok {
				hookAt[k] = i
				hookPeer[k] = pe.Peer
			}
		case "PostDisconnect":
			disc[k]++
		case "PreReadHeader":
			// fires before any message of the session is read; it is a per-message stage
			fallthrough
		default:
			if at, ok := hookAt[k]; !ok || i < at {
				e.Fail("C07/message-stage-before-hooks", "plugin stage %s ran on session %s before its accept/dial hook | history: %s", pe.Stage, pe.Sess, hist)
			}
		}
	}
	for _, x := range ends {
		if !x.estab {
			continue
		}
		k := e.Obs.PeerName(x.sess.Peer()) + "|" + x.key
		if !x.live && disc[k] != 1 {
			e.Fail("C07/disconnect-hook-count", "established session %s ended but PostDisconnect ran %d times | history: %s", x.key, disc[k], hist)
		}
		if x.live && disc[k] != 0 {
			e.Fail("C07/disconnect-hook-on-live-session", "session %s is live but PostDisconnect ran %d times", x.key, disc[k])
		}
	}
	for k, n := range disc {
		if n > 1 {
			e.Fail("C07/disconnect-hook-count", "PostDisconnect ran %d times for %s | history: %s", n, k, hist)
		}
	}
	// rejected sessions: no handler, no per-message stage
	for _, pr := range pairs {
		if pr.rejected != "accept" || pr.cli == nil {
			continue
		}
		// the server-side session of a rejected accept is keyed by the client's local address
		skey := pr.cli.sess.RemoteAddr().String() + "<" + pr.cli.sess.LocalAddr().String()
		key := "srv|" + skey
		for _, pe := range e.Obs.Plugins {
			if pe.Peer+"|"+pe.Sess == key && pe.Stage != "PostAccept" && pe.Stage != "PostDisconnect" {
				e.Fail("C07/stage-on-rejected-session", "stage %s ran on a session whose accept hook refused it", pe.Stage)
			}
		}
		for _, ev := range e.Obs.Handlers {
			if ev.Peer == "srv" && ev.Sess == skey {
				e.Fail("C07/handler-on-rejected-session", "a handler ran on a session whose accept hook refused it")
			}
		}
	}
}

// c07Namer is a PostAccept plugin that gives the session an id when asked to.
type c07Namer struct{ on func() bool }

func (n *c07Namer) Name() string { return "namer" }
func (n *c07Namer) PostDial(s erpc.PreSession, isRedial bool) *erpc.Status {
	if n.on() {
		s.SetID("named-dial-" + s.LocalAddr().String())
	}
	return nil
}
func (n *c07Namer) PostAccept(s erpc.PreSession) *erpc.Status {
	if n.on() {
		s.SetID("named-" + s.RemoteAddr().String())
	}
	return nil
}
