package props

import (
	"fmt"
	"strings"
	"testing"
	"time"

	erpc "github.com/henrylee2cn/erpc/v6"

	"simrt"
	"verif/simnet"
	"verif/world"
)

// C09 - plugin hooks fire once, in stage and registration order, and can veto.
//
// Generated plugin topologies on a server peer: global plugins added at creation, and more appended left
// and right *after* routes are registered; 0-3 nested router groups with 0-2 plugins each; per-handler
// plugins; sibling handlers in one group; plugin types that implement all stages or only a subset; each
// plugin returns a scripted verdict per (stage, message).  A client (with its own global plugins) sends
// calls and pushes, some concurrently.  Oracle: a reference model computes for every message the chain
// (global-left ++ groups ++ handler ++ global-right for body and reply stages, the global container
// for header stages) and the stage order; the recorded trace per message must be exactly the expected
// (plugin, stage) sequence truncated by the first veto; veto before the handler => handler log empty and
// the caller gets the veto status; client-side PreWrite veto => nothing on the wire.

func init() { register(&Prop{ID: "C09", Run: runC09}) }

type c09Plugin struct {
	name string
	kind string // full | body | write | header
}

type c09Route struct {
	groups  [][]c09Plugin // plugins of each nested group, outer first
	handler []c09Plugin
	push    bool
	unknown bool // the peer's unknown-call / unknown-push handler (with plugins of its own), reached by an unregistered name
	fn      int
	name    string
}

// six call handlers and three push handlers: the router names functions by reflection, so they must be distinct
func c09h0(c erpc.CallCtx, a *world.Payload) (*world.Payload, *erpc.Status) { return c09call(c, a) }
func c09h1(c erpc.CallCtx, a *world.Payload) (*world.Payload, *erpc.Status) { return c09call(c, a) }
func c09h2(c erpc.CallCtx, a *world.Payload) (*world.Payload, *erpc.Status) { return c09call(c, a) }
func c09h3(c erpc.CallCtx, a *world.Payload) (*world.Payload, *erpc.Status) { return c09call(c, a) }
func c09h4(c erpc.CallCtx, a *world.Payload) (*world.Payload, *erpc.Status) { return c09call(c, a) }
func c09h5(c erpc.CallCtx, a *world.Payload) (*world.Payload, *erpc.Status) { return c09call(c, a) }
func c09p0(c erpc.PushCtx, a *world.Payload) *erpc.Status                   { return c09push(c, a) }
func c09p1(c erpc.PushCtx, a *world.Payload) *erpc.Status                   { return c09push(c, a) }
func c09p2(c erpc.PushCtx, a *world.Payload) *erpc.Status                   { return c09push(c, a) }

func c09call(c erpc.CallCtx, a *world.Payload) (*world.Payload, *erpc.Status) {
	e := world.Cur()
	simrt.Yield()
	e.Obs.RecordHandler(world.HandlerEvent{Peer: "srv", Sess: world.SessKey(c.Session()), Seq: c.Seq(), Kind: "call", Method: c.ServiceMethod(), Arg: a.String()})
	c.SetMeta("Veto-Key", string(c.PeekMeta("Mk")))
	return &world.Payload{Tag: a.Tag, Data: "ok"}, nil
}

func c09push(c erpc.PushCtx, a *world.Payload) *erpc.Status {
	e := world.Cur()
	simrt.Yield()
	e.Obs.RecordHandler(world.HandlerEvent{Peer: "srv", Sess: world.SessKey(c.Session()), Seq: c.Seq(), Kind: "push", Method: c.ServiceMethod(), Arg: a.String()})
	return nil
}

var c09stages = map[string][]string{
	"full":   {"PostReadCallHeader", "PreReadCallBody", "PostReadCallBody", "PreWriteReply", "PostWriteReply", "PostReadPushHeader", "PreReadPushBody", "PostReadPushBody"},
	"body":   {"PreReadCallBody", "PostReadCallBody", "PreReadPushBody", "PostReadPushBody"},
	"write":  {"PreWriteReply", "PostWriteReply"},
	"header": {"PostReadCallHeader", "PostReadPushHeader"},
}

func implements(kind, stage string) bool {
	for _, s := range c09stages[kind] {
		if s == stage {
			return true
		}
	}
	return false
}

func runC09(t *testing.T, seed uint64, m *Mask) *Report {
	sc, nc, r := swarm(seed, m)
	opt := world.Options{Seed: seed, Sim: sc, Net: nc}
	proto := []string{"raw", "raw", "json", "pb", "thrift-binary"}[r.Intn(5)]
	pn := 0
	kinds := []string{"full", "full", "body", "write", "header"}
	newP := func() c09Plugin {
		pn++
		return c09Plugin{name: fmt.Sprintf("p%d", pn), kind: kinds[r.Intn(len(kinds))]}
	}
	some := func(max int) []c09Plugin {
		var out []c09Plugin
		for i := r.Intn(max + 1); i > 0; i-- {
			out = append(out, newP())
		}
		return out
	}
	leftEarly, rightEarly := some(2), some(2)
	leftLate, rightLate := some(1), some(2)
	// a tree of groups: each route picks a path of 0-3 nested groups out of a small forest
	type grp struct {
		parent  int
		plugins []c09Plugin
		prefix  string
	}
	groups := []grp{}
	nG := r.Intn(5)
	for i := 0; i < nG; i++ {
		parent := -1
		if i > 0 && r.Chance(0.6) {
			parent = r.Intn(i)
		}
		groups = append(groups, grp{parent: parent, plugins: some(2), prefix: fmt.Sprintf("g%d", i)})
	}
	nRoutes := 1 + r.Intn(6)
	var routes []*c09Route
	usedCall, usedPush := 0, 0
	for i := 0; i < nRoutes; i++ {
		rt := &c09Route{push: r.Chance(0.3)}
		if rt.push {
			if usedPush >= 3 {
				rt.push = false
			} else {
				rt.fn = usedPush
				usedPush++
			}
		}
		if !rt.push {
			if usedCall >= 6 {
				continue
			}
			rt.fn = usedCall
			usedCall++
		}
		rt.handler = some(2)
		g := -1
		if len(groups) > 0 && r.Chance(0.8) {
			g = r.Intn(len(groups))
		}
		rt.name = fmt.Sprint(g)
		routes = append(routes, rt)
	}
	// the unknown handlers are routes of their own kind: plugins given to SetUnknownCall / SetUnknownPush are
	// on their chain between the global left and right plugins
	if r.Chance(0.35) {
		routes = append(routes, &c09Route{unknown: true, handler: some(2), name: "-1"})
	}
	if r.Chance(0.25) {
		routes = append(routes, &c09Route{unknown: true, push: true, handler: some(2), name: "-1"})
	}
	// messages
	type msg struct {
		idx   int
		route int
		tag   string
		veto  string // "plugin/stage" that vetoes this message ("" none), server or client side
		op    *world.Op
	}
	nMsg := 1 + r.Intn(10)
	var msgs []*msg
	for i := 0; i < nMsg; i++ {
		msgs = append(msgs, &msg{idx: i, route: r.Intn(len(routes)), tag: fmt.Sprintf("m%x.%d", seed&0xffff, i)})
	}
	concurrent := r.Chance(0.5)
	vetoRate := 0.35
	// redial sub-space: the client dials with a redial budget and the connection is cut while messages are
	// issued, so a message may be written again on the new connection.  Only the "at most once per stage"
	// clause is judged there (whether calls survive a loss belongs to C13, including its known finding).
	redial := r.Chance(0.15)
	cutYield := r.Intn(60)
	rep := &Report{NOps: len(msgs)}
	rep.Cell = fmt.Sprintf("%s,redial=%v", proto, redial)
	var topo []string

	out := world.Run(t, opt, func(e *world.Env) {
		e.AllowUnknownArgs = true
		vetoOf := map[string]string{} // tag -> "plugin/stage"
		verdict := func(plugin, stage, tag string, seq int32) *erpc.Status {
			if vetoOf[tag] == plugin+"/"+stage {
				return erpc.NewStatus(3000, "veto "+plugin+"/"+stage, tag)
			}
			return nil
		}
		mk := func(p c09Plugin) erpc.Plugin {
			rec := &world.Recorder{PName: p.name, Env: e, TagVerdict: verdict}
			switch p.kind {
			case "body":
				return &world.RecBody{R: rec}
			case "write":
				return &world.RecWrite{R: rec}
			case "header":
				return &world.RecHeader{R: rec}
			}
			return rec
		}
		mkAll := func(ps []c09Plugin) []erpc.Plugin {
			var out []erpc.Plugin
			for _, p := range ps {
				out = append(out, mk(p))
			}
			return out
		}
		srv := e.NewPeer("srv", erpc.PeerConfig{}, mkAll(leftEarly)...)
		srv.PluginContainer().AppendRight(mkAll(rightEarly)...)
		// groups
		sub := make([]*erpc.SubRouter, len(groups))
		chainOf := make([][]c09Plugin, len(groups))
		for i, g := range groups {
			if g.parent < 0 {
				sub[i] = srv.SubRoute(g.prefix, mkAll(g.plugins)...)
				chainOf[i] = append([]c09Plugin{}, g.plugins...)
			} else {
				sub[i] = sub[g.parent].SubRoute(g.prefix, mkAll(g.plugins)...)
				chainOf[i] = append(append([]c09Plugin{}, chainOf[g.parent]...), g.plugins...)
			}
		}
		callFns := []interface{}{c09h0, c09h1, c09h2, c09h3, c09h4, c09h5}
		pushFns := []interface{}{c09p0, c09p1, c09p2}
		middle := make([][]c09Plugin, len(routes))
		for i, rt := range routes {
			var g int
			fmt.Sscan(rt.name, &g)
			hp := mkAll(rt.handler)
			switch {
			case rt.unknown && rt.push:
				srv.SetUnknownPush(func(c erpc.UnknownPushCtx) *erpc.Status {
					var a world.Payload
					c.Bind(&a)
					simrt.Yield()
					e.Obs.RecordHandler(world.HandlerEvent{Peer: "srv", Sess: world.SessKey(c.Session()), Seq: c.Seq(), Kind: "push", Method: c.ServiceMethod(), Arg: a.String()})
					return nil
				}, hp...)
				rt.name = fmt.Sprintf("/no/such/push/%d", i)
			case rt.unknown:
				srv.SetUnknownCall(func(c erpc.UnknownCallCtx) (interface{}, *erpc.Status) {
					var a world.Payload
					c.Bind(&a)
					simrt.Yield()
					e.Obs.RecordHandler(world.HandlerEvent{Peer: "srv", Sess: world.SessKey(c.Session()), Seq: c.Seq(), Kind: "call", Method: c.ServiceMethod(), Arg: a.String()})
					c.SetMeta("Veto-Key", string(c.PeekMeta("Mk")))
					return &world.Payload{Tag: a.Tag, Data: "ok"}, nil
				}, hp...)
				rt.name = fmt.Sprintf("/no/such/call/%d", i)
			case g < 0 && rt.push:
				rt.name = srv.RoutePushFunc(pushFns[rt.fn], hp...)
			case g < 0:
				rt.name = srv.RouteCallFunc(callFns[rt.fn], hp...)
			case rt.push:
				rt.name = sub[g].RoutePushFunc(pushFns[rt.fn], hp...)
			default:
				rt.name = sub[g].RouteCallFunc(callFns[rt.fn], hp...)
			}
			if g >= 0 {
				middle[i] = append(append([]c09Plugin{}, chainOf[g]...), rt.handler...)
			} else {
				middle[i] = append([]c09Plugin{}, rt.handler...)
			}
		}
		// global plugins added after the routes exist
		srv.PluginContainer().AppendLeft(mkAll(leftLate)...)
		srv.PluginContainer().AppendRight(mkAll(rightLate)...)
		left := append(append([]c09Plugin{}, leftLate...), leftEarly...)
		right := append(append([]c09Plugin{}, rightEarly...), rightLate...)
		// a global plugin taken out again once routes and handlers exist: from then on it fires at no stage, on
		// the peer's own container and on every container derived from it
		if n := len(left) + len(right); n > 0 && e.Gen.Intn(4) == 0 {
			k := e.Gen.Intn(n)
			var gone c09Plugin
			if k < len(left) {
				gone = left[k]
				left = append(left[:k:k], left[k+1:]...)
			} else {
				k -= len(left)
				gone = right[k]
				right = append(right[:k:k], right[k+1:]...)
			}
			if err := srv.PluginContainer().Remove(gone.name); err != nil {
				e.Fail("infra-remove-failed", "remove %s: %v", gone.name, err)
				return
			}
			topo = append(topo, "removed["+gone.name+"]")
		}
		names := func(ps []c09Plugin) string {
			var s []string
			for _, p := range ps {
				s = append(s, p.name+":"+p.kind)
			}
			return strings.Join(s, ",")
		}
		topo = append(topo, "left["+names(left)+"] right["+names(right)+"]")
		for i, rt := range routes {
			topo = append(topo, fmt.Sprintf("%s{%s}", rt.name, names(middle[i])))
		}
		// client with two global recording plugins
		cliRec := &world.Recorder{PName: "c1", Env: e, TagVerdict: verdict}
		cliRec2 := &world.Recorder{PName: "c2", Env: e, TagVerdict: verdict}
		// between them a plugin that only takes (fake) time after a call or push frame was written: the reply
		// may then arrive while the caller is still in its post-write stage
		cliSlow := &world.Slow{Env: e, P: []float64{0, 0.4, 0.9}[e.Gen.Intn(3)], PostLaunch: true}
		ccfg := erpc.PeerConfig{}
		if redial {
			ccfg.RedialTimes, ccfg.RedialInterval = 3, 10*time.Millisecond
		}
		cli := e.NewPeer("cli", ccfg, cliRec, cliSlow, cliRec2)
		pf := world.ProtoFunc(proto)
		var sess erpc.Session
		var ca *simnet.Conn
		if redial {
			e.Serve(srv, "10.9.0.1:9000", pf)
			var st *erpc.Status
			if sess, st = cli.Dial("10.9.0.1:9000", pf); !st.OK() {
				e.Fail("infra-dial-failed", "dial: %v", st)
				return
			}
		} else {
			sess, _, ca, _ = e.ServePair(cli, srv, pf, pf)
		}
		// expected server-side trace per message
		expect := func(mm *msg) (srvTrace []string, handlerRuns bool, vetoStatus bool) {
			rt := routes[mm.route]
			global := append(append([]c09Plugin{}, left...), right...)
			chain := append(append(append([]c09Plugin{}, left...), middle[mm.route]...), right...)
			stages := []struct {
				stage  string
				chain  []c09Plugin
				before bool
			}{}
			if rt.push {
				stages = append(stages, struct {
					stage  string
					chain  []c09Plugin
					before bool
				}{"PostReadPushHeader", global, true}, struct {
					stage  string
					chain  []c09Plugin
					before bool
				}{"PreReadPushBody", chain, true}, struct {
					stage  string
					chain  []c09Plugin
					before bool
				}{"PostReadPushBody", chain, true})
			} else {
				stages = append(stages, struct {
					stage  string
					chain  []c09Plugin
					before bool
				}{"PostReadCallHeader", global, true}, struct {
					stage  string
					chain  []c09Plugin
					before bool
				}{"PreReadCallBody", chain, true}, struct {
					stage  string
					chain  []c09Plugin
					before bool
				}{"PostReadCallBody", chain, true})
			}
			handlerRuns = true
			vetoedBefore := false
			vetoAtHeader := false
			for si, st := range stages {
				if vetoedBefore {
					break
				}
				for _, p := range st.chain {
					if !implements(p.kind, st.stage) {
						continue
					}
					srvTrace = append(srvTrace, p.name+"/"+st.stage)
					if vetoOf[mm.tag] == p.name+"/"+st.stage {
						vetoedBefore = true
						handlerRuns = false
						vetoStatus = true
						vetoAtHeader = si == 0
						break
					}
				}
			}
			if !rt.push {
				// reply-writing stages run whatever happened before, on the chain resolved so far
				wchain := chain
				if vetoAtHeader {
					wchain = global
				}
				for _, stage := range []string{"PreWriteReply", "PostWriteReply"} {
					for _, p := range wchain {
						if !implements(p.kind, stage) {
							continue
						}
						srvTrace = append(srvTrace, p.name+"/"+stage)
						if vetoOf[mm.tag] == p.name+"/"+stage {
							break // a non-OK verdict ends the stage; it cannot change the reply any more
						}
					}
				}
			}
			return
		}
		// choose vetoes now that the chains are known
		for _, mm := range msgs {
			if m.opDropped(mm.idx) || !e.Gen.Chance(vetoRate) {
				continue
			}
			rt := routes[mm.route]
			if e.Gen.Chance(0.25) {
				stage := "PreWriteCall"
				if rt.push {
					stage = "PreWritePush"
				}
				vetoOf[mm.tag] = []string{"c1", "c2"}[e.Gen.Intn(2)] + "/" + stage
				continue
			}
			tr, _, _ := expect(mm)
			if len(tr) > 0 {
				vetoOf[mm.tag] = tr[e.Gen.Intn(len(tr))]
			}
		}
		run := func(mm *msg) {
			rt := routes[mm.route]
			op := &world.Op{Idx: mm.idx, Tag: mm.tag, Kind: "call", Route: rt.name, Data: "d", MetaK: "Mk", MetaV: mm.tag, Codec: 'j'}
			if rt.push {
				op.Kind = "push"
			}
			mm.op = op
			e.OpByTag[op.Tag] = op
			before := 0
			if ca != nil {
				before = len(ca.Sent())
			}
			e.Issue(sess, world.Routes{}, op, nil)
			if v := vetoOf[mm.tag]; strings.HasPrefix(v, "c") && !concurrent && ca != nil {
				if len(ca.Sent()) != before {
					e.Fail("C09/vetoed-message-was-written", "client plugin %s vetoed message %s but %d bytes went on the wire", v, mm.tag, len(ca.Sent())-before)
				}
			}
		}
		var live []*msg
		for _, mm := range msgs {
			if !m.opDropped(mm.idx) {
				live = append(live, mm)
			}
		}
		if redial {
			simrt.GoNamed("cutter", func() {
				simrt.YieldN(cutYield)
				for j := len(e.Net.Conns) - 1; j >= 0; j-- {
					if c := e.Net.Conns[j]; !c.IsClosed() && !c.IsBroken() {
						c.CutNow()
						break
					}
				}
			})
			for _, mm := range live {
				mm := mm
				simrt.GoNamed("caller", func() { run(mm) })
			}
			simrt.WaitQuiescent()
			// at most once per (plugin, stage, message), on both sides
			cnt := map[string]int{}
			for _, pe := range e.Obs.Plugins {
				switch pe.Stage {
				case "PreReadHeader", "PostAccept", "PostDial", "PostRedial", "PostDisconnect":
					continue
				}
				if pe.Tag == "" {
					continue
				}
				k := pe.Peer + " " + pe.Plugin + "/" + pe.Stage + " for message " + pe.Tag
				cnt[k]++
				if cnt[k] == 2 {
					e.Fail("C09/hook-fired-twice", "proto=%s redial=true: %s fired more than once", proto, k)
				}
			}
			e.Probe("c09-redial-subspace")
			e.CloseAll()
			return
		}
		if concurrent {
			done := 0
			for _, mm := range live {
				mm := mm
				simrt.GoNamed("caller", func() { run(mm); done++ })
			}
			simrt.WaitCond(func() bool { return done == len(live) })
		} else {
			for _, mm := range live {
				run(mm)
			}
		}
		simrt.WaitQuiescent()
		e.CheckSettled("C09/task-stuck-at-quiescence")
		// observed traces per tag
		srvGot := map[string][]string{}
		cliGot := map[string][]string{}
		seqTag := map[int32]string{}
		for _, pe := range e.Obs.Plugins {
			if pe.Peer == "cli" && pe.Tag != "" {
				seqTag[pe.Seq] = pe.Tag
			}
		}
		for _, pe := range e.Obs.Plugins {
			switch pe.Stage {
			case "PreReadHeader", "PostAccept", "PostDial", "PostDisconnect":
				continue
			}
			tag := pe.Tag
			if tag == "" {
				tag = seqTag[pe.Seq] // a reply written after a veto carries no metadata: attribute by sequence number
			}
			if pe.Peer == "srv" {
				srvGot[tag] = append(srvGot[tag], pe.Plugin+"/"+pe.Stage)
			} else {
				cliGot[tag] = append(cliGot[tag], pe.Plugin+"/"+pe.Stage)
			}
		}
		topoS := strings.Join(topo, " ")
		for _, mm := range live {
			rt := routes[mm.route]
			v := vetoOf[mm.tag]
			info := fmt.Sprintf("proto=%s route=%s veto=%q", proto, rt.name, v)
			handlerN := 0
			for _, ev := range e.Obs.Handlers {
				if world.TagOf(ev.Arg) == mm.tag {
					handlerN++
				}
			}
			if strings.HasPrefix(v, "c") {
				// vetoed by the caller's own pre-write hook
				if len(srvGot[mm.tag]) != 0 || handlerN != 0 {
					e.Fail("C09/vetoed-message-reached-the-peer", "%s: server saw %v, handler ran %d times", info, srvGot[mm.tag], handlerN)
				}
				if mm.op.OK || mm.op.Code != 3000 {
					e.Fail("C09/veto-status-not-returned", "%s: caller got ok=%v code=%d", info, mm.op.OK, mm.op.Code)
				}
				continue
			}
			want, handlerRuns, vetoStatus := expect(mm)
			got := srvGot[mm.tag]
			if strings.Join(got, " ") != strings.Join(want, " ") {
				e.Fail("C09/hook-trace-differs", "%s: server hooks fired %v, expected %v | topology: %s", info, got, want, topoS)
			}
			if handlerRuns && handlerN != 1 {
				e.Fail("C09/handler-count", "%s: handler ran %d times, expected 1 | topology: %s", info, handlerN, topoS)
			}
			if !handlerRuns && handlerN != 0 {
				e.Fail("C09/handler-ran-despite-veto", "%s: handler ran %d times although a hook before it vetoed | topology: %s", info, handlerN, topoS)
			}
			if !rt.push {
				if vetoStatus && (mm.op.OK || mm.op.Code != 3000 || mm.op.Msg != "veto "+v) {
					e.Fail("C09/veto-status-not-returned", "%s: caller got ok=%v (%d,%q)", info, mm.op.OK, mm.op.Code, mm.op.Msg)
				}
				if !vetoStatus && !mm.op.OK {
					e.Fail("C09/unexpected-error", "%s: caller got (%d,%q,%q)", info, mm.op.Code, mm.op.Msg, mm.op.Cause)
				}
			}
			// client side: each of the two global plugins fires once per stage, c1 before c2
			wantCli := []string{"c1/PreWriteCall", "c2/PreWriteCall", "c1/PostWriteCall", "c2/PostWriteCall", "c1/PostReadReplyHeader", "c2/PostReadReplyHeader", "c1/PreReadReplyBody", "c2/PreReadReplyBody", "c1/PostReadReplyBody", "c2/PostReadReplyBody"}
			if rt.push {
				wantCli = []string{"c1/PreWritePush", "c2/PreWritePush", "c1/PostWritePush", "c2/PostWritePush"}
			}
			if vetoStatus && !rt.push {
				// an error reply: the body stage after reading is skipped by design (status already not OK)
				wantCli = wantCli[:8]
			}
			if strings.Join(cliGot[mm.tag], " ") != strings.Join(wantCli, " ") {
				e.Fail("C09/client-hook-trace-differs", "%s: client hooks fired %v, expected %v", info, cliGot[mm.tag], wantCli)
			}
		}
		e.CloseAll()
	})
	rep.Sample = strings.Join(topo, " ")
	return finish(rep, out)
}
