package props

import (
	"encoding/json"
	"fmt"
	"path"
	"sort"
	"strings"
	"testing"
	"time"
	"unicode"

	erpc "github.com/henrylee2cn/erpc/v6"

	"simrt"
	"verif/world"
)

// C10 - registered routes dispatch to exactly their handler; unknown names do not.
//
// Honest scope: the mapping clause is a pure function (prefix, identifier) -> name and the conflict clause is a
// property of registration; both are evaluated directly (README rows as golden values, an independent
// reference mapper over the library's identifiers, conflicts observed through the Fatalf hook) and are
// reported as pure sub-checks, not as simulation coverage.  The simulated clause is dispatch: a random
// subset of a fixed library of controller structs and handler functions is registered under generated
// group prefixes with either mapper, for CALL and PUSH, with optional unknown handlers; clients on 1-3
// sessions send - concurrently - requests for every returned name, for near misses (case, separators,
// prefixes, suffixes) and for names of the other namespace.  Oracle: the handler that runs for a name is
// exactly the one whose registration returned it; an unregistered name reaches the unknown handler if
// one is set and otherwise yields 404 with no handler entry; CALL and PUSH namespaces are disjoint.

func init() { register(&Prop{ID: "C10", Run: runC10}) }

// ---- library of controllers ----
type c10ret = *world.Payload

func c10id(c interface {
	Seq() int32
	ServiceMethod() string
	Session() erpc.CtxSession
	Peer() erpc.Peer
}, id string, kind string, a *world.Payload) {
	e := world.Cur()
	// a handler that takes its time before it looks at the name it was invoked under: later frames of the same
	// connection are read meanwhile
	c10linger(e)
	e.Obs.RecordHandler(world.HandlerEvent{Peer: "srv", Sess: world.SessKey(c.Session()), Seq: c.Seq(), Kind: kind, Method: c.ServiceMethod(), Arg: id + "|" + a.Tag})
}

func c10linger(e *world.Env) {
	switch e.Gen.Intn(4) {
	case 0:
		simrt.Yield()
	case 1:
		simrt.YieldN(1 + e.Gen.Intn(30))
	default:
		simrt.Sleep(time.Duration(1+e.Gen.Intn(2000)) * time.Microsecond)
	}
}

// c10tag extracts the probe tag from the JSON body an unknown-handler is given.
func c10tag(body []byte) string {
	var p struct{ Tag string }
	json.Unmarshal(body, &p)
	return p.Tag
}

type CtlA struct{ erpc.CallCtx }

func (c *CtlA) AaBb(a *world.Payload) (c10ret, *erpc.Status) {
	c10id(c, "CtlA.AaBb", "call", a)
	return &world.Payload{Tag: a.Tag, Data: "CtlA.AaBb"}, nil
}
func (c *CtlA) ABcXYz(a *world.Payload) (c10ret, *erpc.Status) {
	c10id(c, "CtlA.ABcXYz", "call", a)
	return &world.Payload{Tag: a.Tag, Data: "CtlA.ABcXYz"}, nil
}
func (c *CtlA) Aa_Bb(a *world.Payload) (c10ret, *erpc.Status) {
	c10id(c, "CtlA.Aa_Bb", "call", a)
	return &world.Payload{Tag: a.Tag, Data: "CtlA.Aa_Bb"}, nil
}
func (c *CtlA) ABC_XYZ(a *world.Payload) (c10ret, *erpc.Status) {
	c10id(c, "CtlA.ABC_XYZ", "call", a)
	return &world.Payload{Tag: a.Tag, Data: "CtlA.ABC_XYZ"}, nil
}

type Ctl_B struct{ erpc.CallCtx }

func (c *Ctl_B) Get(a *world.Payload) (c10ret, *erpc.Status) {
	c10id(c, "Ctl_B.Get", "call", a)
	return &world.Payload{Tag: a.Tag, Data: "Ctl_B.Get"}, nil
}
func (c *Ctl_B) GetInfo2(a *world.Payload) (c10ret, *erpc.Status) {
	c10id(c, "Ctl_B.GetInfo2", "call", a)
	return &world.Payload{Tag: a.Tag, Data: "Ctl_B.GetInfo2"}, nil
}
func (c *Ctl_B) X__Y(a *world.Payload) (c10ret, *erpc.Status) {
	c10id(c, "Ctl_B.X__Y", "call", a)
	return &world.Payload{Tag: a.Tag, Data: "Ctl_B.X__Y"}, nil
}

// CtlDup has two methods that collide under the HTTP mapper (AaBb and Aa__Bb -> aa_bb) but not under the RPC mapper.
type CtlDup struct{ erpc.CallCtx }

func (c *CtlDup) AaBb(a *world.Payload) (c10ret, *erpc.Status) {
	c10id(c, "CtlDup.AaBb", "call", a)
	return &world.Payload{Tag: a.Tag, Data: "CtlDup.AaBb"}, nil
}
func (c *CtlDup) Aa__Bb(a *world.Payload) (c10ret, *erpc.Status) {
	c10id(c, "CtlDup.Aa__Bb", "call", a)
	return &world.Payload{Tag: a.Tag, Data: "CtlDup.Aa__Bb"}, nil
}

type PushA struct{ erpc.PushCtx }

func (c *PushA) Note(a *world.Payload) *erpc.Status { c10id(c, "PushA.Note", "push", a); return nil }
func (c *PushA) Ev_Ent(a *world.Payload) *erpc.Status {
	c10id(c, "PushA.Ev_Ent", "push", a)
	return nil
}

// PushAaBb shares method names with CtlA on purpose: the namespaces must stay apart.
type CtlAPush struct{ erpc.PushCtx }

func (c *CtlAPush) AaBb(a *world.Payload) *erpc.Status {
	c10id(c, "CtlAPush.AaBb", "push", a)
	return nil
}

func C10FnOne(c erpc.CallCtx, a *world.Payload) (c10ret, *erpc.Status) {
	c10id(c, "C10FnOne", "call", a)
	return &world.Payload{Tag: a.Tag, Data: "C10FnOne"}, nil
}
func C10_fn_two(c erpc.CallCtx, a *world.Payload) (c10ret, *erpc.Status) {
	c10id(c, "C10_fn_two", "call", a)
	return &world.Payload{Tag: a.Tag, Data: "C10_fn_two"}, nil
}
func C10PushFn(c erpc.PushCtx, a *world.Payload) *erpc.Status {
	c10id(c, "C10PushFn", "push", a)
	return nil
}

// ---- independent reference mapper (written from the README rules) ----
func refSegments(name string) []string {
	const ph = "\x00"
	s := strings.ReplaceAll(name, "__", ph)
	parts := strings.Split(s, "_")
	for i := range parts {
		parts[i] = strings.ReplaceAll(parts[i], ph, "_")
	}
	return parts
}

func refSnake(s string) string {
	var out []rune
	rs := []rune(s)
	for i, r := range rs {
		if unicode.IsUpper(r) {
			if i > 0 && (unicode.IsLower(rs[i-1]) || unicode.IsDigit(rs[i-1])) {
				out = append(out, '_')
			} else if i > 0 && i+1 < len(rs) && unicode.IsUpper(rs[i-1]) && unicode.IsLower(rs[i+1]) && false {
				out = append(out, '_')
			}
			out = append(out, unicode.ToLower(r))
		} else {
			out = append(out, r)
		}
	}
	return strings.ReplaceAll(string(out), "__", "_")
}

func refMap(mapper, prefix, name string) string {
	segs := refSegments(name)
	if mapper == "rpc" {
		return strings.Trim(prefix+"."+strings.Join(segs, "."), ".")
	}
	for i := range segs {
		segs[i] = refSnake(segs[i])
	}
	return path.Join("/", prefix, strings.Join(segs, "/"))
}

var readmeRows = []struct{ in, http, rpc string }{
	{"AaBb", "/aa_bb", "AaBb"}, {"ABcXYz", "/abc_xyz", "ABcXYz"}, {"Aa__Bb", "/aa_bb", "Aa_Bb"}, {"aa__bb", "/aa_bb", "aa_bb"},
	{"ABC__XYZ", "/abc_xyz", "ABC_XYZ"}, {"Aa_Bb", "/aa/bb", "Aa.Bb"}, {"aa_bb", "/aa/bb", "aa.bb"}, {"ABC_XYZ", "/abc/xyz", "ABC.XYZ"},
}

type c10Reg struct {
	kind   string // call | push
	what   string // library item
	group  string // generated prefix ("" root)
	names  []string
	ids    []string // handler identity per returned name (same order)
	fatal  string
	expect []string // reference names, same order as the library lists them
}

func runC10(t *testing.T, seed uint64, m *Mask) *Report {
	sc, nc, r := swarm(seed, m)
	opt := world.Options{Seed: seed, Sim: sc, Net: nc}
	opt.Mapper = []string{"http", "rpc"}[r.Intn(2)]
	proto := []string{"raw", "raw", "json", "pb"}[r.Intn(4)]
	if opt.Mapper == "http" && r.Chance(0.2) {
		proto = "http"
	}
	items := []string{"CtlA", "Ctl_B", "CtlDup", "PushA", "CtlAPush", "C10FnOne", "C10_fn_two", "C10PushFn", "CtlA#2"}
	var plan []c10Reg
	prefixes := []string{"", "", "v1", "Api", "g_x", "Deep__er"}
	for _, it := range items {
		if r.Chance(0.6) {
			plan = append(plan, c10Reg{what: it, group: prefixes[r.Intn(len(prefixes))]})
		}
	}
	if len(plan) == 0 {
		plan = append(plan, c10Reg{what: "CtlA"})
	}
	unknownCall, unknownPush := r.Chance(0.4), r.Chance(0.4)
	nSess := 1 + r.Intn(3)
	rep := &Report{NOps: len(plan)}
	rep.Cell = fmt.Sprintf("%s,mapper=%s,unknownCall=%v,unknownPush=%v", proto, opt.Mapper, unknownCall, unknownPush)
	var sample []string

	out := world.Run(t, opt, func(e *world.Env) {
		e.AllowUnknownArgs = true
		// ---- pure sub-check 1: the README table ----
		for _, row := range readmeRows {
			if got := erpc.HTTPServiceMethodMapper("", row.in); got != row.http {
				e.Fail("C10/pure-mapping-table", "HTTP mapper(%q) = %q, documented %q", row.in, got, row.http)
			}
			if got := erpc.RPCServiceMethodMapper("", row.in); got != row.rpc {
				e.Fail("C10/pure-mapping-table", "RPC mapper(%q) = %q, documented %q", row.in, got, row.rpc)
			}
			if refMap("http", "", row.in) != row.http || refMap("rpc", "", row.in) != row.rpc {
				e.Fail("infra-reference-mapper", "reference mapper disagrees with the README on %q", row.in)
			}
		}
		e.Probe("pure_subcheck:readme_rows")
		// a header-stage plugin may re-route a message by resetting its service method (what plugin/ignorecase does):
		// dispatch - and the name the handler sees - then follow the reset name
		rewr := map[string]string{}
		srv := e.NewPeer("srv", erpc.PeerConfig{}, &c10Rewriter{rules: rewr})
		if unknownCall {
			srv.SetUnknownCall(func(c erpc.UnknownCallCtx) (interface{}, *erpc.Status) {
				tag := c10tag(c.InputBodyBytes())
				c10linger(e)
				e.Obs.RecordHandler(world.HandlerEvent{Peer: "srv", Sess: world.SessKey(c.Session()), Seq: c.Seq(), Kind: "unknown_call", Method: c.ServiceMethod(), Arg: "unknown|" + tag})
				return &world.Payload{Data: "unknown-call"}, nil
			})
		}
		if unknownPush {
			srv.SetUnknownPush(func(c erpc.UnknownPushCtx) *erpc.Status {
				tag := c10tag(c.InputBodyBytes())
				c10linger(e)
				e.Obs.RecordHandler(world.HandlerEvent{Peer: "srv", Sess: world.SessKey(c.Session()), Seq: c.Seq(), Kind: "unknown_push", Method: c.ServiceMethod(), Arg: "unknown|" + tag})
				return nil
			})
		}
		groups := map[string]*erpc.SubRouter{}
		grp := func(p string) *erpc.SubRouter {
			if g, ok := groups[p]; ok {
				return g
			}
			g := srv.SubRoute(p)
			groups[p] = g
			return g
		}
		// ---- registration (conflicts must be loud) ----
		owner := map[string]string{} // "call|name" -> identity
		for i := range plan {
			reg := &plan[i]
			if m.opDropped(i) {
				continue
			}
			var lib struct {
				kind    string
				ctl     interface{}
				typ     string
				methods []string
				fn      string
			}
			switch strings.TrimSuffix(reg.what, "#2") {
			case "CtlA":
				lib.kind, lib.ctl, lib.typ, lib.methods = "call", new(CtlA), "CtlA", []string{"ABC_XYZ", "ABcXYz", "AaBb", "Aa_Bb"}
			case "Ctl_B":
				lib.kind, lib.ctl, lib.typ, lib.methods = "call", new(Ctl_B), "Ctl_B", []string{"Get", "GetInfo2", "X__Y"}
			case "CtlDup":
				lib.kind, lib.ctl, lib.typ, lib.methods = "call", new(CtlDup), "CtlDup", []string{"AaBb", "Aa__Bb"}
			case "PushA":
				lib.kind, lib.ctl, lib.typ, lib.methods = "push", new(PushA), "PushA", []string{"Ev_Ent", "Note"}
			case "CtlAPush":
				lib.kind, lib.ctl, lib.typ, lib.methods = "push", new(CtlAPush), "CtlAPush", []string{"AaBb"}
			case "C10FnOne":
				lib.kind, lib.ctl, lib.fn = "call", C10FnOne, "C10FnOne"
			case "C10_fn_two":
				lib.kind, lib.ctl, lib.fn = "call", C10_fn_two, "C10_fn_two"
			case "C10PushFn":
				lib.kind, lib.ctl, lib.fn = "push", C10PushFn, "C10PushFn"
			}
			reg.kind = lib.kind
			// reference names
			gp := ""
			if reg.group != "" {
				gp = refMap(opt.Mapper, "", reg.group)
			}
			var refNames, ids []string
			if lib.fn != "" {
				refNames = []string{refMap(opt.Mapper, gp, lib.fn)}
				ids = []string{lib.fn}
			} else {
				cp := refMap(opt.Mapper, gp, lib.typ)
				for _, mth := range lib.methods {
					refNames = append(refNames, refMap(opt.Mapper, cp, mth))
					ids = append(ids, lib.typ+"."+mth)
				}
			}
			reg.expect = refNames
			func() {
				defer func() {
					if p := recover(); p != nil {
						if fe, ok := p.(world.FatalError); ok {
							reg.fatal = fe.Msg
							return
						}
						panic(p)
					}
				}()
				var router interface {
					RouteCall(interface{}, ...erpc.Plugin) []string
					RoutePush(interface{}, ...erpc.Plugin) []string
					RouteCallFunc(interface{}, ...erpc.Plugin) string
					RoutePushFunc(interface{}, ...erpc.Plugin) string
				}
				if reg.group == "" {
					router = srv.Router()
				} else {
					router = grp(reg.group)
				}
				switch {
				case lib.fn != "" && lib.kind == "call":
					reg.names = []string{router.RouteCallFunc(lib.ctl)}
				case lib.fn != "":
					reg.names = []string{router.RoutePushFunc(lib.ctl)}
				case lib.kind == "call":
					reg.names = router.RouteCall(lib.ctl)
				default:
					reg.names = router.RoutePush(lib.ctl)
				}
			}()
			sample = append(sample, fmt.Sprintf("%s@%q->%v fatal=%q", reg.what, reg.group, reg.names, reg.fatal))
			// would this registration collide? (reference view)
			collide := false
			seen := map[string]bool{}
			for _, n := range refNames {
				if seen[n] || owner[lib.kind+"|"+n] != "" {
					collide = true
				}
				seen[n] = true
			}
			if collide {
				e.Probe("pure_subcheck:conflict_registrations")
				if reg.fatal == "" {
					e.Fail("C10/silent-name-sharing", "registering %s under %q with the %s mapper collides on a name (%v) but was accepted silently: returned %v", reg.what, reg.group, opt.Mapper, refNames, reg.names)
				}
				continue // a refused registration: the process would have exited
			}
			if reg.fatal != "" {
				e.Fail("C10/spurious-conflict", "registering %s under %q was refused (%s) although no name collides: %v", reg.what, reg.group, reg.fatal, refNames)
				continue
			}
			// returned names == reference names (as sets; the framework sorts by method name)
			a, b := append([]string{}, reg.names...), append([]string{}, refNames...)
			sort.Strings(a)
			sort.Strings(b)
			if strings.Join(a, " ") != strings.Join(b, " ") {
				e.Fail("C10/pure-returned-names-differ", "registering %s under %q (%s mapper) returned %v, the documented mapping gives %v", reg.what, reg.group, opt.Mapper, reg.names, refNames)
				continue
			}
			e.Probe("pure_subcheck:returned_names")
			for k, n := range refNames {
				owner[lib.kind+"|"+n] = ids[k]
			}
		}
		// ---- simulated clause: dispatch ----
		cli := e.NewPeer("cli", erpc.PeerConfig{})
		pf := world.ProtoFunc(proto)
		var sessions []erpc.Session
		for i := 0; i < nSess; i++ {
			s, _, _, _ := e.ServePair(cli, srv, pf, pf)
			sessions = append(sessions, s)
		}
		type probe struct {
			kind, name, want string // want: identity | "unknown" | "404" | "none"
			op               *world.Op
		}
		var probes []*probe
		effective := map[string]string{} // probe name -> name after the rewriting plugin
		addProbe := func(kind, name string) {
			eff := name
			if t, ok := rewr[kind+"|"+name]; ok {
				eff = t
			}
			effective[kind+"|"+name] = eff
			want := owner[kind+"|"+eff]
			if want == "" {
				switch {
				case kind == "call" && unknownCall:
					want = "unknown"
				case kind == "call":
					want = "404"
				case unknownPush:
					want = "unknown"
				default:
					want = "none"
				}
			}
			probes = append(probes, &probe{kind: kind, name: name, want: want})
		}
		var keys []string
		for k := range owner {
			keys = append(keys, k)
		}
		sort.Strings(keys)
		if e.Gen.Chance(0.4) {
			for i, k := range keys {
				kind, name := k[:4], k[5:]
				if e.Gen.Chance(0.4) {
					rewr[kind+"|"+name+"~al"] = name // an unregistered alias of a registered name
				}
				if e.Gen.Chance(0.15) {
					// a registered name re-routed to another registered name of the same kind
					if o := keys[(i+1+e.Gen.Intn(len(keys)))%len(keys)]; o[:4] == kind && o != k {
						rewr[k] = o[5:]
					}
				}
				if e.Gen.Chance(0.1) {
					rewr[kind+"|"+name+"~gone"] = name + "~nowhere" // an alias of nothing
				}
			}
			e.Probe("c10-rewriting-plugin")
		}
		for _, k := range keys {
			kind, name := k[:4], k[5:]
			addProbe(kind, name)
			for _, sfx := range []string{"~al", "~gone"} {
				if _, ok := rewr[kind+"|"+name+sfx]; ok {
					addProbe(kind, name+sfx)
				}
			}
			other := map[string]string{"call": "push", "push": "call"}[kind]
			if proto != "http" || other == "call" {
				addProbe(other, name) // the same name in the other namespace
			}
			// near misses
			// names longer than the raw protocol's one-byte length field can express, with a registered name as
			// their prefix: padded with junk, and padded so that the 256 bytes after the prefix read as (empty status,
			// metadata of matching length) to a receiver that took only len%256 bytes as the name
			if kind == "call" && proto == "raw" && e.Gen.Chance(0.15) {
				addProbe(kind, name+strings.Repeat("x", 256))
				addProbe(kind, name+"\x00\x00\x01\x04x="+strings.Repeat("a", 250))
			}
			for _, v := range []string{name + "x", strings.ToUpper(name), strings.ToLower(name), strings.TrimPrefix(name, "/"), name + "/", strings.Replace(name, "/", ".", 1), strings.Replace(name, "_", "/", 1), path.Dir(name)} {
				if v != "" && v != name && e.Gen.Chance(0.4) {
					if kind == "call" || proto != "http" {
						addProbe(kind, v)
					}
				}
			}
		}
		if proto == "http" {
			var keep []*probe
			for _, p := range probes {
				if p.kind == "call" && strings.HasPrefix(p.name, "/") && !strings.Contains(p.name, " ") {
					keep = append(keep, p)
				}
			}
			probes = keep
		}
		done := 0
		for i, p := range probes {
			p := p
			p.op = &world.Op{Idx: 1000 + i, Tag: fmt.Sprintf("q%x.%d", seed&0xffff, i), Kind: p.kind, Route: p.name, Data: "d", MetaK: "Mk", MetaV: "v", Codec: 'j'}
			e.OpByTag[p.op.Tag] = p.op
			sess := sessions[i%len(sessions)]
			simrt.GoNamed("prober", func() { e.Issue(sess, world.Routes{}, p.op, nil); done++ })
		}
		simrt.WaitCond(func() bool { return done == len(probes) })
		simrt.WaitQuiescent()
		e.CheckSettled("C10/task-stuck-at-quiescence")
		ran := map[string][]string{} // tag -> identities of handlers that ran
		for _, ev := range e.Obs.Handlers {
			parts := strings.SplitN(ev.Arg, "|", 2)
			if len(parts) == 2 && parts[0] != "unknown" {
				ran[parts[1]] = append(ran[parts[1]], parts[0])
			}
		}
		unknownRuns := map[string]int{}
		for _, ev := range e.Obs.Handlers {
			if strings.HasPrefix(ev.Kind, "unknown") {
				unknownRuns[ev.Kind+"|"+ev.Method]++
			}
		}
		// the name a handler (registered or unknown) is invoked under is the name that was requested
		nameOf := map[string]string{}
		for _, p := range probes {
			nameOf[p.op.Tag] = effective[p.kind+"|"+p.name]
		}
		for _, ev := range e.Obs.Handlers {
			parts := strings.SplitN(ev.Arg, "|", 2)
			if len(parts) != 2 || ev.Exit {
				continue
			}
			if want, ok := nameOf[parts[1]]; ok && ev.Method != want {
				e.Fail("C10/handler-invoked-under-other-name", "proto=%s mapper=%s: handler %s ran for the request named %q but its context reports the service method %q", proto, opt.Mapper, parts[0], want, ev.Method)
			}
		}
		for _, p := range probes {
			info := fmt.Sprintf("proto=%s mapper=%s %s %q want=%s", proto, opt.Mapper, p.kind, p.name, p.want)
			got := ran[p.op.Tag]
			if len(p.name) > 255 && proto == "raw" {
				// cannot be expressed on this wire: whatever the caller is told, no handler may run and it is not OK
				if len(got) > 0 || p.op.OK {
					e.Fail("C10/unregistered-name-ran-a-handler", "%s (a %d-byte name): handlers that ran %v, caller ok=%v", info[:80], len(p.name), got, p.op.OK)
				}
				continue
			}
			switch p.want {
			case "404":
				if len(got) > 0 {
					e.Fail("C10/unregistered-name-ran-a-handler", "%s: handler %v ran", info, got)
				}
				if p.op.OK || p.op.Code != erpc.CodeNotFound {
					e.Fail("C10/unregistered-name-not-404", "%s: caller got ok=%v (%d,%q)", info, p.op.OK, p.op.Code, p.op.Msg)
				}
			case "none":
				if len(got) > 0 {
					e.Fail("C10/unregistered-name-ran-a-handler", "%s: handler %v ran", info, got)
				}
			case "unknown":
				if len(got) > 0 {
					e.Fail("C10/unregistered-name-ran-a-handler", "%s: registered handler %v ran although an unknown-handler is set", info, got)
				}
				if p.kind == "call" && (!p.op.OK || p.op.Result.Data != "unknown-call") {
					e.Fail("C10/unknown-handler-not-used", "%s: caller got ok=%v (%d,%q) result %q", info, p.op.OK, p.op.Code, p.op.Msg, p.op.ResultStr)
				}
			default:
				if len(got) != 1 || got[0] != p.want {
					e.Fail("C10/wrong-handler-dispatched", "%s: handlers that ran: %v", info, got)
				}
				if p.kind == "call" && (!p.op.OK || p.op.Result.Data != p.want) {
					e.Fail("C10/wrong-handler-dispatched", "%s: caller got ok=%v (%d,%q) result %q", info, p.op.OK, p.op.Code, p.op.Msg, p.op.ResultStr)
				}
			}
		}
		e.CloseAll()
	})
	rep.Sample = strings.Join(sample, "; ")
	return finish(rep, out)
}

// c10Rewriter is a header-stage plugin that re-routes messages by name, as plugin/ignorecase does.
type c10Rewriter struct{ rules map[string]string }

func (w *c10Rewriter) Name() string { return "rewriter" }
func (w *c10Rewriter) PostReadCallHeader(c erpc.ReadCtx) *erpc.Status {
	if t, ok := w.rules["call|"+c.ServiceMethod()]; ok {
		c.ResetServiceMethod(t)
	}
	return nil
}
func (w *c10Rewriter) PostReadPushHeader(c erpc.ReadCtx) *erpc.Status {
	if t, ok := w.rules["push|"+c.ServiceMethod()]; ok {
		c.ResetServiceMethod(t)
	}
	return nil
}
