package props

import (
	"fmt"
	"strings"
	"testing"

	erpc "github.com/henrylee2cn/erpc/v6"
	"github.com/henrylee2cn/erpc/v6/plugin/auth"

	"simrt"
	"verif/simnet"
	"verif/world"
)

// C16 - no handler or message hook runs on a connection that failed authentication.
//
// Server: the shipped auth checker plugin first, then a plugin that records every stage, and the standard
// handlers.  Checker behaviours: verify the token (accept / reject with a status), read twice, never
// read (and accept or reject), panic on a malformed token.  Clients, 1-5 per run, concurrently: real peers
// with the bearer plugin (good or bad token) that then issue calls, and scripted raw peers whose first
// bytes are an AUTH_CALL (good, bad, malformed, undecodable), a CALL, a PUSH, a REPLY, an AUTH_REPLY, an
// unknown type, garbage, a truncated frame or nothing, with application frames pipelined behind or instead of
// the auth frame, under arbitrary segmentation.
// Oracle: for a connection whose exchange did not succeed - no handler entry, no per-message stage, not
// in the index at quiescence, at most one AUTH_REPLY and nothing else written to it; for a successful one - the
// exchange happened once and before any application message, and pipelined frames are then served.

func init() { register(&Prop{ID: "C16", Run: runC16}) }

type c16Client struct {
	idx     int
	kind    string // bearer_good | bearer_bad | raw
	first   string // raw: auth_good | auth_bad | auth_malformed | auth_undecodable | call | push | reply | auth_reply | badtype | garbage | trunc | nothing
	pipe    int    // number of application CALL frames pipelined right behind the first frame
	ok      bool   // ground truth: the exchange succeeds
	key     string // server-side session key
	authRep int
	other   int
	replies int
	eof     bool
	calls   []*world.Op
}

func runC16(t *testing.T, seed uint64, m *Mask) *Report {
	sc, nc, r := swarm(seed, m)
	opt := world.Options{Seed: seed, Sim: sc, Net: nc}
	opt.ReaderSize = []int{16, 64, 1024}[r.Intn(3)]
	proto := []string{"raw", "raw", "json", "pb"}[r.Intn(4)]
	checker := []string{"verify", "verify", "verify", "read_twice", "never_read_reject", "panic_on_malformed"}[r.Intn(6)]
	// some checkers name the session after the presented credentials before they decide (the auth plugin
	// hands SetID to the checker for that): a connection refused afterwards must still vanish from the index
	setID := r.Chance(0.4)
	// and some servers tag every connection in an accept hook placed before the checker
	tagFirst := r.Chance(0.3)
	n := 1 + r.Intn(5)
	firsts := []string{"auth_good", "auth_good", "auth_bad", "auth_malformed", "auth_undecodable", "call", "push", "reply", "auth_reply", "badtype", "garbage", "trunc", "nothing"}
	var clients []*c16Client
	for i := 0; i < n; i++ {
		c := &c16Client{idx: i}
		switch r.Intn(4) {
		case 0:
			c.kind = "bearer_good"
		case 1:
			c.kind = "bearer_bad"
		default:
			c.kind = "raw"
			c.first = firsts[r.Intn(len(firsts))]
			c.pipe = r.Intn(3)
		}
		clients = append(clients, c)
	}
	rep := &Report{NOps: len(clients)}
	rep.Cell = fmt.Sprintf("%s,checker=%s,setid=%v,tagfirst=%v", proto, checker, setID, tagFirst)

	out := world.Run(t, opt, func(e *world.Env) {
		e.AllowUnknownArgs = true
		chk := auth.NewCheckerPlugin(func(sess auth.Session, recv auth.RecvOnce) (interface{}, *erpc.Status) {
			simrt.YieldN(e.Gen.Intn(4))
			switch checker {
			case "never_read_accept":
				return "welcome", nil
			case "never_read_reject":
				return nil, erpc.NewStatus(403, "nobody gets in", "")
			}
			var info string
			if st := recv(&info); !st.OK() {
				return nil, st
			}
			if setID {
				sess.SetID("user-of-" + sess.RemoteAddr().String())
				simrt.YieldN(e.Gen.Intn(3))
			}
			if checker == "read_twice" {
				var again string
				if st := recv(&again); !st.OK() {
					return nil, st
				}
			}
			if checker == "panic_on_malformed" {
				parts := strings.SplitN(info, ":", 2)
				_ = parts[1] // a token without a colon makes the checker panic
			}
			if info == "user:good" {
				return "welcome", nil
			}
			return nil, erpc.NewStatus(403, "wrong credentials", info)
		})
		rec := &world.Recorder{PName: "rec", Env: e}
		plugins := []erpc.Plugin{chk, rec}
		if tagFirst {
			plugins = append([]erpc.Plugin{&c16Tagger{}}, plugins...)
		}
		srv := e.NewPeer("srv", erpc.PeerConfig{}, plugins...)
		rt := e.RegisterStd(srv)
		pf := world.ProtoFunc(proto)
		e.Serve(srv, "10.9.0.1:9000", pf)
		accepts := func(token string, decodable bool) bool {
			switch checker {
			case "never_read_accept":
				return true
			case "never_read_reject", "read_twice":
				return false
			}
			return decodable && token == "user:good"
		}
		done := 0
		for _, c := range clients {
			if m.opDropped(c.idx) {
				done++
				continue
			}
			c := c
			simrt.GoNamed(fmt.Sprintf("client%d", c.idx), func() {
				defer func() { done++ }()
				switch c.kind {
				case "bearer_good", "bearer_bad":
					token := "user:good"
					if c.kind == "bearer_bad" {
						token = "user:wrong"
					}
					c.ok = accepts(token, true)
					bearer := auth.NewBearerPlugin(func(sess auth.Session, send auth.SendOnce) *erpc.Status {
						var ret string
						return send(token, &ret)
					}, erpc.WithBodyCodec('s'))
					cli := e.NewPeer(fmt.Sprintf("cli%d", c.idx), erpc.PeerConfig{}, bearer)
					sess, st := cli.Dial("10.9.0.1:9000", pf)
					for _, cc := range e.Net.Conns {
						if cc.Label == fmt.Sprintf("client%d", c.idx) {
							c.key = cc.Peer.LocalAddr().String() + "<" + cc.LocalAddr().String()
						}
					}
					if st.OK() != c.ok {
						if checker == "never_read_accept" || checker == "never_read_reject" {
							// the bearer still gets the checker's answer; the dial outcome must follow it
						}
						e.Fail("C16/dial-outcome-differs-from-verdict", "client %d (%s, checker=%s): Dial ok=%v, the checker's verdict is accept=%v (%v)", c.idx, c.kind, checker, st.OK(), c.ok, st)
					}
					if st.OK() {
						for k := 0; k < 2; k++ {
							op := &world.Op{Idx: 100*c.idx + k, Tag: fmt.Sprintf("T%x.c%d.%d", seed&0xffffff, c.idx, k), Kind: "call", Route: "echo", Data: "d", MetaK: "Mk", MetaV: "v", Codec: 'j'}
							e.OpByTag[op.Tag] = op
							c.calls = append(c.calls, op)
							e.Issue(sess, rt, op, nil)
						}
					}
				case "raw":
					conn, err := e.Net.Dial("10.9.0.1:9000")
					if err != nil {
						return
					}
					cc := conn.(*simnet.Conn)
					c.key = cc.Peer.LocalAddr().String() + "<" + cc.LocalAddr().String()
					raw := world.NewRawPeer(cc, pf)
					simrt.GoNamed(fmt.Sprintf("rawreader%d", c.idx), func() {
						for {
							msg := raw.Read()
							if msg.Err != nil {
								c.eof = true
								return
							}
							simrt.Yield()
							switch msg.Mtype {
							case erpc.TypeAuthReply:
								c.authRep++
							case erpc.TypeReply:
								c.replies++
							default:
								c.other++
							}
						}
					})
					p := &world.Payload{Tag: fmt.Sprintf("T%x.r%d", seed&0xffffff, c.idx), Data: "first"}
					body := world.Encode('j', p)
					switch c.first {
					case "auth_good":
						c.ok = accepts("user:good", true)
						raw.Send(erpc.TypeAuthCall, 1, "", 's', []byte("user:good"), nil, nil, nil)
					case "auth_bad":
						c.ok = accepts("user:bad", true)
						raw.Send(erpc.TypeAuthCall, 1, "", 's', []byte("user:bad"), nil, nil, nil)
					case "auth_malformed":
						c.ok = accepts("nocolon", true) && checker != "panic_on_malformed"
						raw.Send(erpc.TypeAuthCall, 1, "", 's', []byte("nocolon"), nil, nil, nil)
					case "auth_undecodable":
						c.ok = accepts("", false)
						raw.Send(erpc.TypeAuthCall, 1, "", 250, []byte("\x00\xff"), nil, nil, nil)
					case "call":
						c.ok = accepts("", false)
						raw.Send(erpc.TypeCall, 1, rt.Echo, 'j', body, nil, [][2]string{{"Mk", "v"}}, nil)
					case "push":
						c.ok = accepts("", false)
						raw.Send(erpc.TypePush, 1, rt.Note, 'j', body, nil, nil, nil)
					case "reply":
						c.ok = accepts("", false)
						raw.Send(erpc.TypeReply, 1, "", 'j', body, nil, nil, nil)
					case "auth_reply":
						c.ok = accepts("", false)
						raw.Send(erpc.TypeAuthReply, 1, "", 's', []byte("welcome"), nil, nil, nil)
					case "badtype":
						c.ok = accepts("", false)
						raw.Send(77, 1, rt.Echo, 'j', body, nil, nil, nil)
					case "garbage":
						c.ok = accepts("", false)
						g := make([]byte, 1+e.Gen.Intn(60))
						e.Gen.Bytes(g)
						cc.Write(g)
					case "trunc":
						c.ok = accepts("", false)
						tmpA, _ := e.Net.Pair()
						tmp := world.NewRawPeer(tmpA, pf)
						tmp.Send(erpc.TypeAuthCall, 1, "", 's', []byte("user:good"), nil, nil, nil)
						f := tmpA.Sent()
						cc.Write(f[:e.Gen.Intn(len(f))])
					case "nothing":
						c.ok = accepts("", false)
					}
					for k := 0; k < c.pipe; k++ {
						q := &world.Payload{Tag: fmt.Sprintf("T%x.r%d.p%d", seed&0xffffff, c.idx, k), Data: "piped"}
						raw.Send(erpc.TypeCall, int32(10+k), rt.Echo, 'j', world.Encode('j', q), nil, [][2]string{{"Mk", "v"}}, nil)
					}
					if c.first == "trunc" || c.first == "garbage" {
						// these never become a session; let the server see EOF sooner or later
						simrt.YieldN(e.Gen.Intn(20))
						cc.Close()
					}
				}
			})
		}
		simrt.WaitCond(func() bool { return done == len(clients) })
		simrt.WaitQuiescent()
		e.CheckSettled("C16/task-stuck-at-quiescence", rep.Cell)
		// ---- oracle ----
		for _, c := range clients {
			if m.opDropped(c.idx) || c.key == "" {
				continue
			}
			info := fmt.Sprintf("proto=%s checker=%s client=%s first=%s piped=%d accept=%v", proto, checker, c.kind, c.first, c.pipe, c.ok)
			var stages []string
			hookAt := -1
			firstMsgAt := -1
			for i, pe := range e.Obs.Plugins {
				if pe.Peer != "srv" || pe.Sess != c.key {
					continue
				}
				switch pe.Stage {
				case "PostAccept":
					hookAt = i
				case "PostDisconnect":
				default:
					stages = append(stages, pe.Stage)
					if firstMsgAt < 0 {
						firstMsgAt = i
					}
				}
			}
			handlers := 0
			for _, ev := range e.Obs.Handlers {
				if ev.Peer == "srv" && ev.Sess == c.key && !ev.Exit {
					handlers++
				}
			}
			listed := false
			srv.RangeSession(func(s erpc.Session) bool {
				if world.SessKey(s) == c.key {
					listed = true
				}
				return true
			})
			if c.first == "trunc" {
				// a truncated AUTH_CALL carrying the right token, completed by the bytes of the next frame, may
				// be accepted by a lenient protocol parser (jsonproto): the credentials were presented, so
				// either verdict is acceptable; only the ordering rule applies
				if firstMsgAt >= 0 && hookAt >= 0 && firstMsgAt < hookAt {
					e.Fail("C16/application-message-before-exchange", "%s: a stage ran before the accept hook", info)
				}
				continue
			}
			if !c.ok {
				if handlers > 0 {
					e.Fail("C16/handler-on-unauthenticated-connection", "%s: %d handler invocation(s)", info, handlers)
				}
				if len(stages) > 0 {
					e.Fail("C16/message-hook-on-unauthenticated-connection", "%s: stages %v ran", info, stages)
				}
				// a client that never sends anything keeps its exchange pending for ever: it is neither accepted nor
				// refused, and a hook that names sessions has listed it - not what the property is about
				if listed && !(c.kind == "raw" && c.first == "nothing") {
					e.Fail("C16/unauthenticated-connection-listed", "%s: the connection is listed as a session at quiescence", info)
				}
				if c.kind == "raw" {
					if c.authRep > 1 || c.replies > 0 || c.other > 0 {
						e.Fail("C16/server-wrote-to-unauthenticated-connection", "%s: the server sent %d AUTH_REPLY, %d REPLY and %d other frames", info, c.authRep, c.replies, c.other)
					}
				}
			} else {
				if firstMsgAt >= 0 && hookAt >= 0 && firstMsgAt < hookAt {
					e.Fail("C16/application-message-before-exchange", "%s: stage %s ran before the accept hook", info, stages[0])
				}
				if c.kind == "raw" {
					if c.authRep != 1 {
						e.Fail("C16/exchange-not-exactly-once", "%s: the server sent %d AUTH_REPLY frames", info, c.authRep)
					}
					if c.replies != c.pipe || handlers != c.pipe {
						e.Fail("C16/pipelined-frames-not-served", "%s: %d pipelined calls, %d handler runs, %d replies", info, c.pipe, handlers, c.replies)
					}
				} else {
					for _, op := range c.calls {
						if !op.OK {
							e.Fail("C16/authenticated-client-not-served", "%s: call failed: %d %q %q", info, op.Code, op.Msg, op.Cause)
						}
					}
				}
			}
		}
		e.CloseAll()
	})
	var sm []string
	for _, c := range clients {
		sm = append(sm, c.kind+"/"+c.first+fmt.Sprintf("+%d", c.pipe))
	}
	rep.Sample = rep.Cell + ": " + strings.Join(sm, " ")
	return finish(rep, out)
}

// c16Tagger is an accept hook that gives every connection an id before the auth checker runs.
type c16Tagger struct{}

func (c16Tagger) Name() string { return "tagger" }
func (c16Tagger) PostAccept(s erpc.PreSession) *erpc.Status {
	s.SetID("conn-" + s.RemoteAddr().String())
	return nil
}
