package props

import (
	"fmt"
	"os"
	"sort"
	"strings"

	"simrt"
)

// Race reports are written by the runtime to $VERIF_RACELOG.<pid> (GORACE log_path).  After every run the
// worker reads what was appended and turns each report whose two accesses are both owned by teleport code
// into a failure line; reports that involve the harness (which relies on the scheduler token instead of
// locks) are counted and dropped.

var raceLogOff int64

type raceReport struct {
	a, b   string // owning teleport functions of the two accesses
	fa, fb string // the functions that made the accesses (may be in a dependency)
	text   string
	owner  [2]string // "teleport" | "harness" | "other"
	wg     bool      // the report is the WaitGroup-misuse model, not a memory access
	// overlap: one of the two goroutines is inside, or was started by, a redial that a *writer* began
	// (AsyncCall/Push/reply write -> redialForClient) rather than the reader of the lost connection.  Such a
	// redial runs beside the reader's own handling of the same loss: the open redial-ownership defect
	// (known findings, C13), which is classed apart so that it never covers another race of the same unit.
	overlap bool
}

// writerSideRedial reports whether any stack of a race report (access or goroutine-creation stacks) has a
// redialForClient frame called from anything but readDisconnected.
func writerSideRedial(blk string) bool {
	var names []string
	for _, line := range strings.Split(blk, "\n") {
		l := strings.TrimSpace(line)
		if l == "" || strings.HasPrefix(l, "/") || strings.Contains(l, ".go:") || !strings.HasSuffix(l, ")") {
			if strings.HasPrefix(l, "Goroutine ") || strings.Contains(l, " at 0x") {
				names = append(names, "")
			}
			continue
		}
		if j := strings.LastIndex(l, "("); j > 0 {
			names = append(names, l[:j])
		}
	}
	for i, n := range names {
		if strings.HasSuffix(n, "(*session).redialForClient") && i+1 < len(names) && !strings.HasSuffix(names[i+1], "(*session).readDisconnected") {
			return true
		}
	}
	return false
}

// ownerOf walks one stack from the access outwards.  It returns who owns the access, the owning teleport
// function, the function that made the access, and whether the access is the WaitGroup-misuse marker.
func ownerOf(stack []string) (owner, fn, access string, wg bool) {
	for _, f := range stack {
		switch {
		case strings.HasPrefix(f, "runtime."), strings.HasPrefix(f, "internal/"), strings.HasPrefix(f, "sync/atomic."):
			continue
		case f == "simrt.RaceRead", f == "simrt.RaceWrite", f == "simrt.RaceReadRange", f == "simrt.RaceWriteRange":
			continue // an access declared on behalf of the caller
		case f == "simrt/simsync.wgAddFromZero", f == "simrt/simsync.wgFirstWait", strings.HasPrefix(f, "simrt/simsync.(*WaitGroup)."):
			wg = true
			continue
		case strings.HasPrefix(f, "simrt."), strings.HasPrefix(f, "simrt/"):
			// the access itself is made by simulator bookkeeping (the runtime reports map and slice-growth
			// accesses even from //go:norace code): the structures it stands for (sync.Map, sync.Pool,
			// Mutex ...) are internally synchronised
			return "harness", f, f, wg
		case strings.HasPrefix(f, "github.com/henrylee2cn/erpc/"):
			short := strings.TrimPrefix(f, "github.com/henrylee2cn/erpc/v6")
			short = strings.TrimPrefix(short, "/")
			if strings.HasPrefix(short, ".") {
				short = "erpc" + short
			}
			if access == "" {
				access = short
			}
			return "teleport", short, access, wg
		case strings.HasPrefix(f, "verif/"):
			return "harness", f, f, wg
		default:
			// standard library or a dependency: whoever called it owns the access
			if access == "" {
				access = strings.TrimPrefix(f, "git.apache.org/thrift.git/lib/go/")
			}
			continue
		}
	}
	return "other", "", access, wg
}

func parseRaceLog(text string) []raceReport {
	var out []raceReport
	for _, blk := range strings.Split(text, "WARNING: DATA RACE") {
		if !strings.Contains(blk, " at 0x") {
			continue
		}
		// sections: the two accesses come first ("Read at"/"Write at"/"Previous read at"/"Previous write at")
		var stacks [][]string
		var cur []string
		in := false
		for _, line := range strings.Split(blk, "\n") {
			l := strings.TrimSpace(line)
			switch {
			case strings.HasPrefix(l, "Read at "), strings.HasPrefix(l, "Write at "), strings.HasPrefix(l, "Previous read at "), strings.HasPrefix(l, "Previous write at "),
				strings.HasPrefix(l, "Atomic read at"), strings.HasPrefix(l, "Atomic write at"), strings.HasPrefix(l, "Previous atomic"):
				if in {
					stacks = append(stacks, cur)
				}
				cur, in = nil, true
			case strings.HasPrefix(l, "Goroutine "), strings.HasPrefix(l, "=================="):
				if in {
					stacks = append(stacks, cur)
				}
				cur, in = nil, false
			case in && l != "" && !strings.HasPrefix(l, "/") && !strings.Contains(l, ".go:") && !strings.HasPrefix(l, "[failed"):
				if i := strings.Index(l, "("); i > 0 {
					// function name line: pkg.Func(...)
					name := l
					if j := strings.LastIndex(l, "("); j > 0 {
						name = l[:j]
					}
					cur = append(cur, name)
				}
			}
		}
		if len(stacks) < 2 {
			continue
		}
		var r raceReport
		var w0, w1 bool
		r.owner[0], r.a, r.fa, w0 = ownerOf(stacks[0])
		r.owner[1], r.b, r.fb, w1 = ownerOf(stacks[1])
		r.wg = w0 || w1
		r.overlap = writerSideRedial(blk)
		if len(blk) > 1500 {
			blk = blk[:1500]
		}
		r.text = blk
		out = append(out, r)
	}
	return out
}

// raceLogSize returns the current size of this process's race log (0 if there is none).
func raceLogSize() int64 {
	base := os.Getenv("VERIF_RACELOG")
	if base == "" || !simrt.RaceEnabled {
		return 0
	}
	st, err := os.Stat(fmt.Sprintf("%s.%d", base, os.Getpid()))
	if err != nil {
		return 0
	}
	return st.Size()
}

// raceMark, if > 0, is where the scenario of the current run ended (set by the scheduler's OnTeardown): what the detector writes after it comes
// from the tear-down of the run, in which the scheduler lets unwinding tasks run their deferred functions
// straight through sim points (a Lock no longer waits), so exclusion no longer holds and reports mean nothing.
var raceMark int64

func init() {
	if simrt.RaceEnabled {
		simrt.OnTeardown = func() { raceMark = raceLogSize() }
	}
}

// collectRaces returns failure lines for teleport-owned races reported since the last call.
func collectRaces() (fails []string, harness int) {
	if !simrt.RaceEnabled {
		return nil, 0
	}
	base := os.Getenv("VERIF_RACELOG")
	if base == "" {
		return nil, 0
	}
	path := fmt.Sprintf("%s.%d", base, os.Getpid())
	f, err := os.Open(path)
	if err != nil {
		return nil, 0
	}
	defer f.Close()
	st, _ := f.Stat()
	if st.Size() <= raceLogOff {
		return nil, 0
	}
	end := st.Size()
	if raceMark > raceLogOff && raceMark < end {
		end = raceMark
	}
	buf := make([]byte, end-raceLogOff)
	f.ReadAt(buf, raceLogOff)
	raceLogOff = st.Size()
	raceMark = 0
	seen := map[string]bool{}
	for _, r := range parseRaceLog(string(buf)) {
		if r.owner[0] == "teleport" && r.owner[1] == "teleport" {
			pair := []string{r.a + " [access in " + r.fa + "]", r.b + " [access in " + r.fb + "]"}
			sort.Strings(pair)
			oa, ob := coarse(r.a), coarse(r.b)
			if ob < oa {
				oa, ob = ob, oa
			}
			cls := "C14/race:" + oa + "|" + ob
			msg := "accesses not ordered by happens-before: "
			if r.wg {
				cls = "C14/waitgroup-misuse:" + oa + "|" + ob
				msg = "WaitGroup.Add from a zero counter is not ordered with a Wait that blocks: "
			} else if r.overlap {
				cls = "C14/race-in-overlapping-redial:" + oa + "|" + ob
				msg = "a redial begun by a writer runs beside the reader's handling of the same loss; accesses not ordered by happens-before: "
			}
			if !seen[cls] {
				seen[cls] = true
				fails = append(fails, cls+": "+msg+pair[0]+" and "+pair[1])
			}
		} else {
			harness++
		}
	}
	sort.Strings(fails)
	return fails, harness
}

// coarse reduces an owning function to the unit a race class is named after: the receiver type for methods
// of the root package, the function for its plain functions, the package for everything else.  Which exact
// pair of functions the detector names for one unsynchronised object varies with its shadow state; the unit
// does not.  The functions are kept in the failure text.
func coarse(fn string) string {
	if strings.HasPrefix(fn, "erpc.") {
		if i := strings.Index(fn, ")."); i > 0 {
			return fn[:i+1]
		}
		if i := strings.Index(fn[5:], "."); i > 0 {
			return fn[:5+i] // closure of a plain function
		}
		return fn
	}
	if i := strings.Index(fn, ".("); i > 0 {
		return fn[:i]
	}
	if i := strings.LastIndex(fn, "/"); i >= 0 {
		if j := strings.Index(fn[i:], "."); j > 0 {
			return fn[:i+j]
		}
	}
	if j := strings.Index(fn, "."); j > 0 {
		return fn[:j]
	}
	return fn
}
