module verif

go 1.26

require (
	github.com/henrylee2cn/erpc/v6 v6.0.0
	simrt v0.0.0
)

replace simrt => /verif/simrt

replace github.com/henrylee2cn/erpc/v6 => /repo
