// Command runner drives one property check: it fans seeds out to worker
// processes (the simulation binary), aggregates their reports, matches
// violations against known_findings.json, minimises and confirms new ones in a
// fresh process, and writes the evidence file.
//
// Exit status: 0 property held on everything explored (known findings are
// printed as KNOWN-FINDING lines); 1 with "VIOLATION property=<id> replay=<path>"
// lines otherwise; 2 for infrastructure trouble (build, nondeterminism, watchdog).
package main

import (
	"bufio"
	"encoding/json"
	"flag"
	"fmt"
	"os"
	"os/exec"
	"path/filepath"
	"regexp"
	"runtime"
	"sort"
	"strconv"
	"strings"
	"sync"
	"sync/atomic"
	"time"
)

type report struct {
	Prop         string         `json:"prop"`
	Seed         uint64         `json:"seed"`
	Classes      []string       `json:"classes"`
	Failures     []string       `json:"failures"`
	Inconclusive bool           `json:"inconclusive"`
	Steps        int            `json:"steps"`
	Switches     int            `json:"switches"`
	MultiEnabled int            `json:"multi_enabled"`
	Tasks        int            `json:"tasks"`
	SimNanos     int64          `json:"sim_ns"`
	Sig          string         `json:"sig"`
	SchedSig     string         `json:"sched_sig"`
	StateSig     string         `json:"state_sig"`
	Faults       map[string]int `json:"faults"`
	Probes       map[string]int `json:"probes"`
	Cell         string         `json:"cell"`
	Sample       string         `json:"sample"`
	NOps         int            `json:"n_ops"`
	NFaults      int            `json:"n_faults"`
	NChoices     int            `json:"n_choices"`
	WallMs       float64        `json:"wall_ms"`
	Unclean      bool           `json:"unclean"`
	Stuck        []string       `json:"stuck"`
	ExtOracle    bool           `json:"ext_oracle"`
}

type finding struct {
	Property string   `json:"property"`
	Class    string   `json:"class"`
	Match    []string `json:"match"` // substrings that must all occur in a failure line for it to be this finding
	State    string   `json:"state"` // "open" | "fixed"
	Commit   string   `json:"commit,omitempty"`
	What     string   `json:"what"`
}

type findingsFile struct {
	Findings []finding `json:"findings"`
	Log      []string  `json:"log"`
}

var (
	verif   = "/verif"
	propID  = flag.String("prop", "", "property id")
	tier    = flag.String("tier", "quick", "quick|thorough")
	bin     = flag.String("bin", "", "simulation binary")
	workers = flag.Int("workers", 0, "worker processes (default: number of CPUs)")
	budget  = flag.Duration("budget", 0, "wall-clock budget for the exploration phase")
	replay  = flag.String("replay", "", "replay a file and exit")
	level   = flag.String("level", "exploration", "evidence level")
)

var raceDir string

var recycleRe = regexp.MustCompile(`RECYCLE next=(\d+)`)
var recycled atomic.Int64

func die(code int, format string, a ...any) {
	fmt.Fprintf(os.Stderr, "runner: "+format+"\n", a...)
	os.Exit(code)
}

func baseEnv() []string {
	var env []string
	for _, e := range os.Environ() {
		if strings.HasPrefix(e, "VERIF_") && !strings.HasPrefix(e, "VERIF_TRACE") {
			continue
		}
		env = append(env, e)
	}
	return env
}

func runWorker(extra []string, timeout time.Duration) (string, error) {
	cmd := exec.Command(*bin, "-test.run", "^TestWorker$", "-test.timeout", "0")
	cmd.Env = append(baseEnv(), extra...)
	if raceDir != "" {
		// race-detector reports (race builds only) go to files the worker reads back after every run
		cmd.Env = append(cmd.Env, "VERIF_RACELOG="+filepath.Join(raceDir, "race"), "GORACE=halt_on_error=0 exitcode=0 suppress_equal_stacks=0 suppress_equal_addresses=0 history_size=5 log_path="+filepath.Join(raceDir, "race"))
	}
	var out strings.Builder
	cmd.Stdout = &out
	cmd.Stderr = &out
	if err := cmd.Start(); err != nil {
		return "", err
	}
	done := make(chan error, 1)
	go func() { done <- cmd.Wait() }()
	select {
	case err := <-done:
		return out.String(), err
	case <-time.After(timeout):
		cmd.Process.Kill()
		<-done
		return out.String(), fmt.Errorf("watchdog: worker exceeded %v", timeout)
	}
}

func readReports(path string) []report {
	f, err := os.Open(path)
	if err != nil {
		return nil
	}
	defer f.Close()
	var out []report
	sc := bufio.NewScanner(f)
	sc.Buffer(make([]byte, 1<<20), 64<<20)
	for sc.Scan() {
		line := sc.Bytes()
		if len(line) == 0 || line[0] != '{' {
			continue
		}
		var r report
		if json.Unmarshal(line, &r) == nil {
			out = append(out, r)
		}
	}
	return out
}

func loadFindings() findingsFile {
	var ff findingsFile
	b, err := os.ReadFile(filepath.Join(verif, "known_findings.json"))
	if err == nil {
		if err := json.Unmarshal(b, &ff); err != nil {
			die(2, "known_findings.json: %v", err)
		}
	}
	return ff
}

// matchFinding returns the open finding that explains failure line f, if any.
func matchFinding(ff findingsFile, prop, f string) *finding {
	for i := range ff.Findings {
		k := &ff.Findings[i]
		if k.Property != prop || k.State != "open" {
			continue
		}
		if strings.HasSuffix(k.Class, "*") {
			// "Cxx/*": any violation class of the property
			if !strings.HasPrefix(f, strings.TrimSuffix(k.Class, "*")) {
				continue
			}
		} else if !strings.HasPrefix(f, k.Class+": ") {
			continue
		}
		ok := true
		for _, m := range k.Match {
			if !strings.Contains(f, m) {
				ok = false
				break
			}
		}
		if ok {
			return k
		}
	}
	return nil
}

func lastLines(s string, n int) string {
	ls := strings.Split(strings.TrimRight(s, "\n"), "\n")
	if len(ls) > n {
		ls = ls[len(ls)-n:]
	}
	return strings.Join(ls, "\n")
}

func classOf(f string) string {
	if i := strings.Index(f, ": "); i >= 0 {
		return f[:i]
	}
	return f
}

func main() {
	flag.Parse()
	if *bin == "" {
		die(2, "-bin required")
	}
	if *replay != "" {
		if d, err := os.MkdirTemp("", "verif-replay-"); err == nil {
			raceDir = d
			defer os.RemoveAll(d)
		}
		out, err := runWorker([]string{"VERIF_REPLAY=" + *replay}, 10*time.Minute)
		fmt.Print(out)
		if err != nil {
			die(2, "replay worker failed: %v", err)
		}
		if strings.Contains(out, "REPRODUCED") && !strings.Contains(out, "NOT-REPRODUCED") {
			os.Exit(1)
		}
		os.Exit(0)
	}
	if *propID == "" {
		die(2, "-prop required")
	}
	t0 := time.Now()
	W := *workers
	if W <= 0 {
		W = runtime.NumCPU()
	}
	B := *budget
	if B == 0 {
		if *tier == "thorough" {
			B = 15 * time.Minute
		} else {
			B = 25 * time.Second
		}
	}
	baseSeed := uint64(1)
	if v := os.Getenv("VERIF_SEED"); v != "" {
		if n, err := strconv.ParseUint(v, 10, 64); err == nil {
			baseSeed = n
		}
	}
	// distinct base seeds explore disjoint seed ranges
	start := baseSeed * 1000003
	tmp, err := os.MkdirTemp("", "verif-run-")
	if err != nil {
		die(2, "%v", err)
	}
	defer os.RemoveAll(tmp)
	raceDir = tmp

	// ---- exploration ----
	var wg sync.WaitGroup
	errs := make([]error, W)
	outs := make([]string, W)
	for i := 0; i < W; i++ {
		wg.Add(1)
		go func(i int) {
			defer wg.Done()
			// a worker that has grown large (goroutines the system under test never ends - tickers of plugins
			// without a Close - pin the heap of their run) announces the next seed and exits; it is replaced
			next := start + uint64(i)
			until := time.Now().Add(B)
			for k := 0; ; k++ {
				left := time.Until(until)
				if left <= 0 && k > 0 {
					break
				}
				if left < 0 {
					left = 0
				}
				env := []string{
					"VERIF_PROP=" + *propID,
					"VERIF_TIER=" + *tier,
					fmt.Sprintf("VERIF_SEED_START=%d", next),
					fmt.Sprintf("VERIF_SEED_STRIDE=%d", W),
					"VERIF_SEED_COUNT=100000000",
					fmt.Sprintf("VERIF_DEADLINE_MS=%d", left.Milliseconds()),
					"VERIF_OUT=" + filepath.Join(tmp, fmt.Sprintf("w%d.%d.jsonl", i, k)),
					fmt.Sprintf("VERIF_GOMAXPROCS=%d", []int{1, 1, 1, 1, 1, 1, 2, 4}[i%8]),
				}
				outs[i], errs[i] = runWorker(env, left+3*time.Minute)
				if errs[i] != nil {
					break
				}
				m := recycleRe.FindStringSubmatch(outs[i])
				if m == nil {
					break
				}
				next, _ = strconv.ParseUint(m[1], 10, 64)
				recycled.Add(1)
			}
		}(i)
	}
	wg.Wait()
	var all []report
	for i := 0; i < W; i++ {
		files, _ := filepath.Glob(filepath.Join(tmp, fmt.Sprintf("w%d.*.jsonl", i)))
		for _, f := range files {
			all = append(all, readReports(f)...)
		}
		if errs[i] != nil {
			tail := outs[i]
			if len(tail) > 4000 {
				tail = tail[len(tail)-4000:]
			}
			die(2, "worker %d failed: %v\n%s", i, errs[i], tail)
		}
	}
	if len(all) == 0 {
		die(2, "no runs completed")
	}
	sort.Slice(all, func(i, j int) bool { return all[i].Seed < all[j].Seed })

	// ---- determinism self-check: re-run the first seeds in other processes with another GOMAXPROCS ----
	nDet := 6
	if *tier == "thorough" {
		nDet = 40
	}
	if nDet > len(all) {
		nDet = len(all)
	}
	detChecked, detProcs := 0, 0
	{
		var dwg sync.WaitGroup
		var mu sync.Mutex
		var mismatch []string
		procs := []int{1, 4, 16}
		if *tier == "thorough" {
			procs = []int{1, 1, 4, 4, 16, 16}
		}
		for pi, gmp := range procs {
			dwg.Add(1)
			go func(pi, gmp int) {
				defer dwg.Done()
				path := filepath.Join(tmp, fmt.Sprintf("det%d.jsonl", pi))
				// seeds are start, start+1, ... (contiguous across the original workers)
				env := []string{"VERIF_PROP=" + *propID, "VERIF_TIER=" + *tier, fmt.Sprintf("VERIF_SEED_START=%d", start), "VERIF_SEED_STRIDE=1",
					fmt.Sprintf("VERIF_SEED_COUNT=%d", nDet), "VERIF_OUT=" + path, fmt.Sprintf("VERIF_GOMAXPROCS=%d", gmp)}
				_, err := runWorker(env, 10*time.Minute)
				rs := readReports(path)
				mu.Lock()
				defer mu.Unlock()
				if err != nil {
					mismatch = append(mismatch, fmt.Sprintf("determinism worker failed: %v", err))
					return
				}
				detProcs++
				bySeed := map[uint64]report{}
				for _, r := range all {
					bySeed[r.Seed] = r
				}
				for _, r := range rs {
					o, ok := bySeed[r.Seed]
					if !ok {
						continue
					}
					detChecked++
					// classes of an external oracle (race detector) are not part of the comparison: see props.Prop.ExtOracle
					if o.Sig != r.Sig || (!r.ExtOracle && strings.Join(o.Classes, ",") != strings.Join(r.Classes, ",")) || o.Steps != r.Steps {
						mismatch = append(mismatch, fmt.Sprintf("seed %d: sig %s/%s steps %d/%d classes %v/%v (GOMAXPROCS=%d)", r.Seed, o.Sig, r.Sig, o.Steps, r.Steps, o.Classes, r.Classes, gmp))
					}
				}
			}(pi, gmp)
		}
		dwg.Wait()
		if len(mismatch) > 0 {
			for _, m := range mismatch {
				fmt.Fprintln(os.Stderr, "NONDETERMINISM:", m)
			}
			die(2, "determinism self-check failed: the simulator, not teleport, is at fault; nothing is reported")
		}
	}

	// ---- triage ----
	ff := loadFindings()
	type hit struct {
		rep   report
		lines []string
	}
	knownHits := map[string]int{}     // finding "what" -> count
	newByClass := map[string]*hit{}   // class -> smallest run showing an unexplained failure of that class
	candidates := map[string][]*hit{} // class -> runs showing it, smallest first: a violation that depends on the
	// history of its process (a defect that reads recycled memory, say) may not reproduce from a fresh process
	// for one seed and reproduce for another
	nViolRuns := 0
	for _, r := range all {
		unexplained := map[string][]string{}
		for _, f := range r.Failures {
			if k := matchFinding(ff, *propID, f); k != nil {
				knownHits[k.What]++
				continue
			}
			c := classOf(f)
			unexplained[c] = append(unexplained[c], f)
		}
		if len(unexplained) > 0 {
			nViolRuns++
		}
		for c, lines := range unexplained {
			if h := newByClass[c]; h == nil || r.Steps < h.rep.Steps {
				newByClass[c] = &hit{rep: r, lines: lines}
			}
			candidates[c] = append(candidates[c], &hit{rep: r, lines: lines})
		}
	}
	for _, hs := range candidates {
		sort.Slice(hs, func(i, j int) bool { return hs[i].rep.Steps < hs[j].rep.Steps })
	}
	var classes []string
	for c := range newByClass {
		classes = append(classes, c)
	}
	sort.Strings(classes)

	// ---- minimise + confirm new violations (at most 4 classes per invocation) ----
	replayDir := filepath.Join(verif, "replays")
	if d := os.Getenv("VERIF_EVIDENCE_DIR"); d != "" {
		replayDir = filepath.Join(d, "replays") // development runs against a scratch tree keep /verif clean
	}
	os.MkdirAll(replayDir, 0o755)
	type confirmed struct{ class, path string }
	var viols []confirmed
	nondet := false
	for i, c := range classes {
		if i >= 4 {
			break
		}
		safe := strings.Map(func(r rune) rune {
			if r >= 'a' && r <= 'z' || r >= 'A' && r <= 'Z' || r >= '0' && r <= '9' || r == '.' || r == '-' {
				return r
			}
			return '_'
		}, c)
		ok := false
		for k, h := range candidates[c] {
			if k >= 5 {
				break
			}
			path := filepath.Join(replayDir, fmt.Sprintf("%s-%s-%d.json", *propID, safe, h.rep.Seed))
			env := []string{"VERIF_PROP=" + *propID, "VERIF_TIER=" + *tier, fmt.Sprintf("VERIF_MINIMISE=%d", h.rep.Seed), "VERIF_CLASS=" + c, "VERIF_REPLAY_OUT=" + path}
			out, err := runWorker(env, 15*time.Minute)
			if err != nil {
				fmt.Fprintf(os.Stderr, "runner: minimisation of seed %d class %s failed: %v\n%s\n", h.rep.Seed, c, err, lastLines(out, 6))
				continue
			}
			// fresh-process confirmation
			out, err = runWorker([]string{"VERIF_REPLAY=" + path, "VERIF_TIER=" + *tier}, 10*time.Minute)
			if err != nil || !strings.Contains(out, "REPRODUCED property=") || strings.Contains(out, "NOT-REPRODUCED") {
				fmt.Fprintf(os.Stderr, "runner: replay %s did not reproduce in a fresh process: %v\n%s\n", path, err, lastLines(out, 6))
				os.Remove(path)
				continue
			}
			newByClass[c] = h
			viols = append(viols, confirmed{c, path})
			ok = true
			break
		}
		if !ok {
			nondet = true
		}
	}
	if nondet && len(viols) > 0 {
		// some classes could not be replayed from a fresh process, others could: report those
		fmt.Fprintln(os.Stderr, "runner: at least one violation class could not be replayed from a fresh process and is not reported")
		nondet = false
	}

	// ---- evidence ----
	writeEvidence(all, t0, baseSeed, start, W, B, detChecked, detProcs, knownHits, len(viols), nViolRuns)

	for what, n := range knownHits {
		fmt.Printf("KNOWN-FINDING: property=%s %s (seen in %d failure lines)\n", *propID, what, n)
	}
	if nondet {
		die(2, "a violation could not be replayed exactly; treating as simulator trouble")
	}
	if len(viols) > 0 {
		for _, v := range viols {
			h := newByClass[v.class]
			fmt.Printf("VIOLATION property=%s replay=%s\n", *propID, v.path)
			fmt.Printf("  class=%s seed=%d cell=%s\n", v.class, h.rep.Seed, h.rep.Cell)
			for j, l := range h.lines {
				if j >= 3 {
					break
				}
				if len(l) > 500 {
					l = l[:500] + "..."
				}
				fmt.Printf("  %s\n", l)
			}
		}
		if len(classes) > len(viols) {
			fmt.Printf("  (%d further violation classes not minimised in this invocation: %v)\n", len(classes)-len(viols), classes[len(viols):])
		}
		os.Exit(1)
	}
	fmt.Printf("OK property=%s tier=%s runs=%d wall=%.1fs\n", *propID, *tier, len(all), time.Since(t0).Seconds())
}

func writeEvidence(all []report, t0 time.Time, baseSeed, start uint64, W int, B time.Duration, detChecked, detProcs int, known map[string]int, nViol, nViolRuns int) {
	faults := map[string]int{}
	probes := map[string]int{}
	cells := map[string]int{}
	sched := map[string]bool{}
	states := map[string]bool{}
	var steps, switches int
	var simNs int64
	inconclusive := 0
	nontrivialRuns := 0
	var wallMs float64
	for _, r := range all {
		steps += r.Steps
		switches += r.Switches
		simNs += r.SimNanos
		wallMs += r.WallMs
		if r.Inconclusive {
			inconclusive++
		}
		nf := 0
		for k, v := range r.Faults {
			faults[k] += v
			nf += v
		}
		for k, v := range r.Probes {
			probes[k] += v
		}
		for _, c := range strings.Split(r.Cell, ",") {
			if c != "" {
				cells[c]++
			}
		}
		if r.MultiEnabled > 0 || nf > 0 {
			nontrivialRuns++
			sched[r.SchedSig+"/"+r.StateSig] = true
		}
		if r.StateSig != "" {
			states[r.StateSig] = true
		}
	}
	var samples []any
	for i, r := range all {
		if i >= 3 {
			break
		}
		samples = append(samples, map[string]any{"seed": r.Seed, "cell": r.Cell, "steps": r.Steps, "context_switches": r.Switches, "tasks": r.Tasks,
			"sim_ms": float64(r.SimNanos) / 1e6, "faults": r.Faults, "ops": r.Sample, "classes": r.Classes})
	}
	wall := time.Since(t0).Seconds()
	cov := map[string]any{
		"evaluations":         len(all),
		"distinct_nontrivial": len(sched),
		"rule": "one evaluation = one simulated run (one seed: configuration, workload, schedule and faults all drawn from it). " +
			"A run is non-trivial if at some step >= 2 tasks were enabled or >= 1 fault fired; distinct = distinct (context-switch signature, abstract-state signature) pairs, " +
			"where the context-switch signature hashes the set of (task role, sim-point kind) pairs between which the scheduler switched",
		"samples":                  samples,
		"nontrivial_runs":          nontrivialRuns,
		"runs_per_hour":            int(float64(len(all)) / wall * 3600),
		"seed_base":                baseSeed,
		"first_seed":               start,
		"workers":                  W,
		"budget_s":                 B.Seconds(),
		"scheduler_steps":          steps,
		"context_switches":         switches,
		"simulated_seconds":        float64(simNs) / 1e9,
		"faults_fired":             faults,
		"probes":                   probes,
		"config_cells":             cells,
		"abstract_states":          len(states),
		"determinism_runs_checked": detChecked,
		"determinism_processes":    detProcs,
		"known_findings_seen":      known,
		// small outcome counters (they fluctuate with which seeds fit into the budget) are kept apart from
		// the measures of work above
		"outcomes":           map[string]any{"inconclusive_runs": inconclusive, "runs_with_new_violation": nViolRuns, "worker_processes_replaced": recycled.Load()},
		"real_components":    realComponents,
		"stubbed_components": stubComponents,
	}
	ev := map[string]any{
		"property_id": *propID,
		"tier":        *tier,
		"seed":        baseSeed,
		"level":       *level,
		"coverage":    cov,
		"assumptions": assumptions(*propID),
		"wall_s":      wall,
		"violations":  nViol,
	}
	evDir := filepath.Join(verif, "evidence")
	if d := os.Getenv("VERIF_EVIDENCE_DIR"); d != "" {
		evDir = d // development runs against a scratch tree (VERIF_REPO) must not overwrite the evidence of /repo
	}
	os.MkdirAll(evDir, 0o755)
	b, _ := json.MarshalIndent(ev, "", " ")
	if err := os.WriteFile(filepath.Join(evDir, *propID+".json"), b, 0o644); err != nil {
		die(2, "evidence: %v", err)
	}
}

var realComponents = []string{
	"erpc root package (peer, session, context, router, plugin containers, status, dialer retry loop) - instrumented copy of the working tree",
	"socket (socket, message, raw protocol), utils, xfer + gzip + md5, codec, proto/{jsonproto,pbproto,thriftproto,httproto}, shipped plugins under test",
	"goutil, apache thrift, gogo/golang protobuf, gjson (unmodified dependencies)",
}

var stubComponents = []string{
	"TCP sockets, listeners, dialer -> simnet (in-memory, seeded latency/segmentation/faults)",
	"goroutine scheduling -> simrt strict-token scheduler over testing/synctest; wall clock -> synctest fake clock",
	"sync.Mutex/RWMutex/WaitGroup/Once, sync/atomic -> sim-point wrappers; sync.Pool -> deterministic pool; goutil.AtomicMap/RwMap -> ordered map",
	"goroutine pool (goutil/pool.GoPool) -> plain goroutines owned by the scheduler; logger output discarded",
	"QUIC/KCP/TLS transports not exercised (QUIC stubbed at link time by hook H0)",
}

func assumptions(prop string) []string {
	a := []string{
		"sampling, not enumeration: a clean batch is evidence, not proof",
		"TCP semantics of simnet: a live stream is never reordered, duplicated or thinned",
		"code between a native channel wake-up and the next sim point is not interleaved by the scheduler (guarded by the determinism self-check)",
	}
	return a
}
