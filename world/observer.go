package world

import (
	"fmt"
	"net"
	"time"

	"simrt"

	erpc "github.com/henrylee2cn/erpc/v6"
)

// HandlerEvent is one handler invocation (entry), or its exit.
type HandlerEvent struct {
	At     time.Duration // fake time since the run started
	Step   int
	Peer   string
	Sess   string // remote address of the session (unique per connection end)
	SessID string // session id at that moment
	Seq    int32
	Kind   string // "call" | "push" | "unknown_call" | "unknown_push"
	Method string
	Arg    string // tag-bearing rendering of the argument
	Meta   string // query-string rendering of the input metadata
	Exit   bool
}

// PluginEvent is one plugin hook invocation.
type PluginEvent struct {
	Step   int
	Peer   string
	Plugin string
	Stage  string
	Sess   string
	Seq    int32
	Mtype  byte
	Method string
	Tag    string // value of the "Mk" (requests) or "Veto-Key" (replies) metadata of the message in hand
}

// StatusEvent is one session status transition (hook H3).
type StatusEvent struct {
	Step     int
	Sess     erpc.Session
	From, To int32
}

// Observer collects what the world saw. All appends happen under the scheduler token
// (or in scheduler callbacks), so the order is deterministic.
type Observer struct {
	env       *Env
	Handlers  []HandlerEvent
	Plugins   []PluginEvent
	Status    []StatusEvent
	peerNames map[erpc.Peer]string
}

func newObserver(e *Env) *Observer {
	return &Observer{env: e, peerNames: map[erpc.Peer]string{}, Handlers: make([]HandlerEvent, 0, 1024), Status: make([]StatusEvent, 0, 1024), Plugins: make([]PluginEvent, 0, 4096)}
}

//go:norace
func (o *Observer) step() int {
	if o.env.Sched != nil {
		return o.env.Sched.Stats.Steps
	}
	return 0
}

//go:norace
func (o *Observer) status(s erpc.Session, from, to int32) {
	o.Status = append(o.Status, StatusEvent{Step: o.step(), Sess: s, From: from, To: to})
}

// PeerName returns the harness name of a peer.
//
//go:norace
func (o *Observer) PeerName(p erpc.Peer) string {
	if n, ok := o.peerNames[p]; ok {
		return n
	}
	return "?"
}

// SessKey returns the stable key of a session end: "local<remote" addresses (unique per connection end).
func SessKey(s interface {
	RemoteAddr() net.Addr
	LocalAddr() net.Addr
}) (k string) {
	defer func() {
		if recover() != nil {
			k = "<nil>"
		}
	}()
	return s.LocalAddr().String() + "<" + s.RemoteAddr().String()
}

// RecordHandler logs a handler entry.
//
//go:norace
func (o *Observer) RecordHandler(ev HandlerEvent) {
	ev.Step = o.step()
	if o.env.Sched != nil {
		ev.At = o.env.Sched.Now()
	}
	o.Handlers = append(o.Handlers, ev)
}

// Recorder is a plugin that implements every per-message and lifecycle stage and
// logs each invocation; Verdict (optional) may veto.
type Recorder struct {
	PName   string
	Env     *Env
	Verdict func(stage string, mtype byte, method string, seq int32) *erpc.Status
	// Stages restricts logging/vetoing to a subset (nil: all)
	Stages map[string]bool
	// TagVerdict, if set, decides by (plugin, stage, message tag)
	TagVerdict func(plugin, stage, tag string, seq int32) *erpc.Status
}

// RecBody is a recording plugin that implements the body stages only.
type RecBody struct{ R *Recorder }

func (p *RecBody) Name() string                                 { return p.R.PName }
func (p *RecBody) PreReadCallBody(c erpc.ReadCtx) *erpc.Status  { return p.R.PreReadCallBody(c) }
func (p *RecBody) PostReadCallBody(c erpc.ReadCtx) *erpc.Status { return p.R.PostReadCallBody(c) }
func (p *RecBody) PreReadPushBody(c erpc.ReadCtx) *erpc.Status  { return p.R.PreReadPushBody(c) }
func (p *RecBody) PostReadPushBody(c erpc.ReadCtx) *erpc.Status { return p.R.PostReadPushBody(c) }

// RecWrite is a recording plugin that implements the reply-writing stages only.
type RecWrite struct{ R *Recorder }

func (p *RecWrite) Name() string                                { return p.R.PName }
func (p *RecWrite) PreWriteReply(c erpc.WriteCtx) *erpc.Status  { return p.R.PreWriteReply(c) }
func (p *RecWrite) PostWriteReply(c erpc.WriteCtx) *erpc.Status { return p.R.PostWriteReply(c) }

// RecHeader is a recording plugin that implements the header stages only.
type RecHeader struct{ R *Recorder }

func (p *RecHeader) Name() string                                   { return p.R.PName }
func (p *RecHeader) PostReadCallHeader(c erpc.ReadCtx) *erpc.Status { return p.R.PostReadCallHeader(c) }
func (p *RecHeader) PostReadPushHeader(c erpc.ReadCtx) *erpc.Status { return p.R.PostReadPushHeader(c) }

// Name implements erpc.Plugin.
func (r *Recorder) Name() string { return r.PName }

//go:norace
func (r *Recorder) rec(stage string, peer erpc.Peer, sess string, seq int32, mtype byte, method string, tag ...string) *erpc.Status {
	if r.Stages != nil && !r.Stages[stage] {
		return nil
	}
	o := r.Env.Obs
	ev := PluginEvent{Step: o.step(), Peer: o.PeerName(peer), Plugin: r.PName, Stage: stage, Sess: sess, Seq: seq, Mtype: mtype, Method: method}
	if len(tag) > 0 {
		ev.Tag = tag[0]
	}
	o.Plugins = append(o.Plugins, ev)
	if r.TagVerdict != nil {
		return r.TagVerdict(r.PName, stage, ev.Tag, seq)
	}
	if r.Verdict != nil {
		return r.Verdict(stage, mtype, method, seq)
	}
	return nil
}

func msgTag(m erpc.Message) string {
	if b := m.Meta().Peek("Mk"); len(b) > 0 {
		return string(b)
	}
	return string(m.Meta().Peek("Veto-Key"))
}

func (r *Recorder) w(stage string, c erpc.WriteCtx) *erpc.Status {
	m := c.Output()
	return r.rec(stage, c.Peer(), SessKey(c.Session()), m.Seq(), m.Mtype(), m.ServiceMethod(), msgTag(m))
}

func (r *Recorder) r(stage string, c erpc.ReadCtx) *erpc.Status {
	m := c.Input()
	return r.rec(stage, c.Peer(), SessKey(c.Session()), m.Seq(), m.Mtype(), m.ServiceMethod(), msgTag(m))
}

func (r *Recorder) PostDial(s erpc.PreSession, isRedial bool) *erpc.Status {
	st := "PostDial"
	if isRedial {
		st = "PostRedial"
	}
	return r.rec(st, s.Peer(), SessKey(s), 0, 0, "")
}
func (r *Recorder) PostAccept(s erpc.PreSession) *erpc.Status {
	return r.rec("PostAccept", s.Peer(), SessKey(s), 0, 0, "")
}
func (r *Recorder) PostDisconnect(s erpc.BaseSession) *erpc.Status {
	return r.rec("PostDisconnect", s.Peer(), SessKey(s), 0, 0, "")
}
func (r *Recorder) PreWriteCall(c erpc.WriteCtx) *erpc.Status   { return r.w("PreWriteCall", c) }
func (r *Recorder) PostWriteCall(c erpc.WriteCtx) *erpc.Status  { return r.w("PostWriteCall", c) }
func (r *Recorder) PreWriteReply(c erpc.WriteCtx) *erpc.Status  { return r.w("PreWriteReply", c) }
func (r *Recorder) PostWriteReply(c erpc.WriteCtx) *erpc.Status { return r.w("PostWriteReply", c) }
func (r *Recorder) PreWritePush(c erpc.WriteCtx) *erpc.Status   { return r.w("PreWritePush", c) }
func (r *Recorder) PostWritePush(c erpc.WriteCtx) *erpc.Status  { return r.w("PostWritePush", c) }
func (r *Recorder) PreReadHeader(c erpc.PreCtx) error {
	if st := r.rec("PreReadHeader", c.Peer(), SessKey(c.Session()), 0, 0, ""); st != nil {
		return fmt.Errorf("%s", st.String())
	}
	return nil
}
func (r *Recorder) PostReadCallHeader(c erpc.ReadCtx) *erpc.Status {
	return r.r("PostReadCallHeader", c)
}
func (r *Recorder) PreReadCallBody(c erpc.ReadCtx) *erpc.Status  { return r.r("PreReadCallBody", c) }
func (r *Recorder) PostReadCallBody(c erpc.ReadCtx) *erpc.Status { return r.r("PostReadCallBody", c) }
func (r *Recorder) PostReadPushHeader(c erpc.ReadCtx) *erpc.Status {
	return r.r("PostReadPushHeader", c)
}
func (r *Recorder) PreReadPushBody(c erpc.ReadCtx) *erpc.Status  { return r.r("PreReadPushBody", c) }
func (r *Recorder) PostReadPushBody(c erpc.ReadCtx) *erpc.Status { return r.r("PostReadPushBody", c) }
func (r *Recorder) PostReadReplyHeader(c erpc.ReadCtx) *erpc.Status {
	return r.r("PostReadReplyHeader", c)
}
func (r *Recorder) PreReadReplyBody(c erpc.ReadCtx) *erpc.Status  { return r.r("PreReadReplyBody", c) }
func (r *Recorder) PostReadReplyBody(c erpc.ReadCtx) *erpc.Status { return r.r("PostReadReplyBody", c) }

// Slow is a plugin that does nothing but take time (fake-clock sleeps and yields drawn from the run's
// generator) at the reply-writing and body stages: it widens the windows between a handler's return and the
// packing of its reply, and between reading a header and its body - as a slow plugin or a contended lock would.
type Slow struct {
	Env *Env
	P   float64
	// PostLaunch / PreLaunch also delay the caller's side after / before a call or push frame is written
	// (PostWriteCall, PostWritePush / PreWriteCall, PreWritePush), for up to LaunchMax of fake time: the
	// call is on the wire but AsyncCall has not returned yet.
	PostLaunch, PreLaunch bool
	LaunchMax             time.Duration
}

func (s *Slow) Name() string { return "slow" }
func (s *Slow) delay() *erpc.Status {
	if s.Env.Gen.Chance(s.P) {
		if s.Env.Gen.Chance(0.5) {
			simrt.Sleep(time.Duration(1+s.Env.Gen.Intn(3000)) * time.Microsecond)
		} else {
			simrt.YieldN(1 + s.Env.Gen.Intn(40))
		}
	}
	return nil
}
func (s *Slow) launch(on bool) *erpc.Status {
	if on && s.Env.Gen.Chance(s.P) {
		max := s.LaunchMax
		if max <= 0 {
			max = 3 * time.Millisecond
		}
		simrt.Sleep(time.Duration(1+s.Env.Gen.Intn(int(max/time.Microsecond))) * time.Microsecond)
	}
	return nil
}
func (s *Slow) PreWriteCall(erpc.WriteCtx) *erpc.Status    { return s.launch(s.PreLaunch) }
func (s *Slow) PostWriteCall(erpc.WriteCtx) *erpc.Status   { return s.launch(s.PostLaunch) }
func (s *Slow) PreWritePush(erpc.WriteCtx) *erpc.Status    { return s.launch(s.PreLaunch) }
func (s *Slow) PostWritePush(erpc.WriteCtx) *erpc.Status   { return s.launch(s.PostLaunch) }
func (s *Slow) PreWriteReply(erpc.WriteCtx) *erpc.Status   { return s.delay() }
func (s *Slow) PostReadCallBody(erpc.ReadCtx) *erpc.Status { return s.delay() }
func (s *Slow) PostReadPushBody(erpc.ReadCtx) *erpc.Status { return s.delay() }
func (s *Slow) PreReadReplyBody(erpc.ReadCtx) *erpc.Status { return s.delay() }
