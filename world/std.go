package world

import (
	"context"
	"fmt"
	"strings"
	"time"

	erpc "github.com/henrylee2cn/erpc/v6"
	"github.com/henrylee2cn/erpc/v6/utils"

	"simrt"
)

// Op is one generated client operation and, through its unique Tag, the script of
// what the handler that receives it does.
type Op struct {
	Idx   int
	Tag   string
	Kind  string // "call" | "async" | "push"
	Route string // "echo" | "plain" | "bytes" | "note" | "note_plain" | explicit service method when Raw
	Data  string
	N     int64
	MetaK string
	MetaV string
	// MetaSteps: further metadata settings applied in order after MetaK: {"add",k,v} | {"set",k,v} | {"del",k,""}
	// (keys from ExtraMetaKeys); HDelMeta: the handler deletes that key from its input metadata when it is done
	MetaSteps [][3]string
	HDelMeta  string
	Codec     byte
	Pipe      []byte
	Conn      int  // index of the session pair
	ToSrv     bool // issued on the client-side session (towards the server side)
	Caller    int  // caller task index on that session end
	// handler script
	HYield int
	HSleep time.Duration
	// HWaitClose: the handler waits for the close notification of its session before it answers (long poll)
	HWaitClose bool
	// CtxTimeout > 0: the message is sent with erpc.WithContext(a context with that deadline), generous enough
	// never to expire in a healthy run; it arms the connection's write deadline for this message
	CtxTimeout time.Duration
	// AcceptCodec != 0: erpc.WithAcceptBodyCodec (the body codec the caller wishes the reply to use)
	AcceptCodec byte
	HStatus     [3]string // code,msg,cause as strings; empty code = OK
	HCode       int32
	HPanic      bool
	// HPanicKind: what a panicking handler panics with - 0 a string, 1 an error, 2.. a *Status (as ThrowStatus and
	// CheckStatus do) with code OK, a small code, 404 or a large code; the text is its cause
	HPanicKind int
	HNested    bool // call back to the caller before returning
	// results
	Issued    bool
	IssuedAt  int
	Done      bool
	DoneAt    int
	OK        bool
	Code      int32
	Msg       string
	Cause     string
	Result    Payload
	ResultStr string
	RMeta     map[string]string
	Seq       int32
	ChanCount int
	Dropped   bool
}

// Transform is the function every echo handler applies to the data.
func Transform(s string) string {
	b := []byte(s)
	for i, j := 0, len(b)-1; i < j; i, j = i+1, j-1 {
		b[i], b[j] = b[j], b[i]
	}
	return string(b)
}

// ExpectData is what the caller must get back for op.
func ExpectData(op *Op) string { return Transform(op.Data) + "|" + op.MetaV }

// Cur returns the environment of the running simulation.
func Cur() *Env { return curEnv }

// Std is the standard CALL controller.
type Std struct{ erpc.CallCtx }

// StdPush is the standard PUSH controller.
type StdPush struct{ erpc.PushCtx }

func metaString(visit func(func(k, v []byte))) string {
	var sb strings.Builder
	visit(func(k, v []byte) {
		if sb.Len() > 0 {
			sb.WriteByte('&')
		}
		sb.Write(k)
		sb.WriteByte('=')
		sb.Write(v)
	})
	return sb.String()
}

type inCtx interface {
	Peer() erpc.Peer
	Session() erpc.CtxSession
	Seq() int32
	ServiceMethod() string
	VisitMeta(f func(key, value []byte))
	PeekMeta(key string) []byte
}

func enter(c inCtx, kind, tag, arg string) (*Env, *Op) {
	e := curEnv
	if e == nil {
		return nil, nil
	}
	simrt.YieldQuiet() // handler entry is a sim point
	ev := HandlerEvent{Peer: e.Obs.PeerName(c.Peer()), Sess: SessKey(c.Session()), SessID: c.Session().ID(), Seq: c.Seq(), Kind: kind,
		Method: c.ServiceMethod(), Arg: arg, Meta: metaString(c.VisitMeta)}
	e.Obs.RecordHandler(ev)
	op := e.OpByTag[tag]
	if op == nil && e.AllowUnknownArgs {
		return e, nil
	}
	if op == nil {
		e.Fail("handler-input-not-sent", "%s handler on %s seq=%d got an argument nobody sent: %q", kind, ev.Sess, ev.Seq, arg)
		return e, nil
	}
	for i := 0; i < op.HYield; i++ {
		simrt.YieldQuiet()
	}
	if op.HSleep > 0 {
		simrt.Sleep(op.HSleep)
	}
	if op.HWaitClose {
		if s := erpc.VerifSessionOf(c.Session()); s != nil {
			simrt.WaitClosed(s.CloseNotify())
		}
	}
	return e, op
}

// ExpectedExtraMeta replays op.MetaSteps: the extra metadata the receiver must see, in order.
func ExpectedExtraMeta(op *Op) [][2]string {
	var kv [][2]string
	for _, ms := range op.MetaSteps {
		switch ms[0] {
		case "add":
			kv = append(kv, [2]string{ms[1], ms[2]})
		case "set":
			found := false
			for i := range kv {
				if kv[i][0] == ms[1] {
					kv[i][1], found = ms[2], true
					break
				}
			}
			if !found {
				kv = append(kv, [2]string{ms[1], ms[2]})
			}
		case "del":
			var keep [][2]string
			for _, x := range kv {
				if x[0] != ms[1] {
					keep = append(keep, x)
				}
			}
			kv = keep
		}
	}
	return kv
}

// dirtyMeta lets a handler strip an entry from the metadata of the message it was given (as a plugin that
// consumes a marker does) once it has read what it needs.
func dirtyMeta(c interface{}, op *Op) {
	if in, ok := c.(interface{ Input() erpc.Message }); ok && op != nil && op.HDelMeta != "" {
		in.Input().Meta().Del(op.HDelMeta)
	}
}

func leave(e *Env, c inCtx, kind string) {
	if e == nil {
		return
	}
	simrt.YieldQuiet()
	e.Obs.RecordHandler(HandlerEvent{Peer: e.Obs.PeerName(c.Peer()), Sess: SessKey(c.Session()), Seq: c.Seq(), Kind: kind, Method: c.ServiceMethod(), Exit: true})
}

// doPanic aborts a handler the way the script says.
func (op *Op) doPanic() {
	text := "scripted handler panic " + op.Tag
	switch op.HPanicKind {
	case 0:
		panic(text)
	case 1:
		panic(fmt.Errorf("%s", text))
	default:
		code := []int32{erpc.CodeOK, 7, erpc.CodeNotFound, 100001}[(op.HPanicKind-2)%4]
		panic(erpc.NewStatus(code, "thrown", text))
	}
}

func (op *Op) handlerStatus() *erpc.Status {
	if op.HCode == 0 {
		return nil
	}
	return erpc.NewStatus(op.HCode, op.HStatus[1], op.HStatus[2])
}

// Echo handles a Payload call.
func (s *Std) Echo(arg *Payload) (*Payload, *erpc.Status) { return echoImpl(s, arg) }

// EchoFn is the same handler in the function form (context as an interface argument).
func EchoFn(ctx erpc.CallCtx, arg *Payload) (*Payload, *erpc.Status) { return echoImpl(ctx, arg) }

// StdMx carries the same handler in the method-expression form: RouteCallFunc((*StdMx).EchoMx).
type StdMx struct{ erpc.CallCtx }

// EchoMx is registered as a function whose first argument is the controller pointer.
func (s *StdMx) EchoMx(arg *Payload) (*Payload, *erpc.Status) { return echoImpl(s, arg) }

// okStatus is what a successful handler returns as its status: nil mostly, an explicit status with code OK
// for some operations (both are "success" for the framework and for every plugin).
func okStatus(op *Op) *erpc.Status {
	if op.Idx%5 == 3 {
		return erpc.NewStatus(erpc.CodeOK, "", nil)
	}
	return nil
}

func echoImpl(s erpc.CallCtx, arg *Payload) (*Payload, *erpc.Status) {
	e, op := enter(s, "call", arg.Tag, arg.String())
	defer leave(e, s, "call")
	if op == nil {
		return &Payload{Tag: arg.Tag}, nil
	}
	if op.HPanic {
		op.doPanic()
	}
	if st := op.handlerStatus(); st != nil {
		return nil, st
	}
	s.SetMeta("Rtag", arg.Tag)
	s.SetMeta("Mk-Echo", string(s.PeekMeta(op.MetaK)))
	s.SetMeta("Veto-Key", string(s.PeekMeta(op.MetaK)))
	res := &Payload{Tag: arg.Tag, Data: Transform(arg.Data) + "|" + string(s.PeekMeta(op.MetaK)), N: arg.N + 1}
	dirtyMeta(s, op)
	return res, okStatus(op)
}

func splitPlain(s string) (tag, data string) {
	if i := strings.IndexByte(s, ';'); i >= 0 {
		return s[:i], s[i+1:]
	}
	return s, ""
}

// Plain handles a string call ("tag;data").
func (s *Std) Plain(arg *string) (string, *erpc.Status) {
	tag, data := splitPlain(*arg)
	e, op := enter(s, "call", tag, *arg)
	defer leave(e, s, "call")
	if op == nil {
		return tag + ";", nil
	}
	if op.HPanic {
		op.doPanic()
	}
	if st := op.handlerStatus(); st != nil {
		return "", st
	}
	s.SetMeta("Rtag", tag)
	s.SetMeta("Mk-Echo", string(s.PeekMeta(op.MetaK)))
	s.SetMeta("Veto-Key", string(s.PeekMeta(op.MetaK)))
	return tag + ";" + Transform(data) + "|" + string(s.PeekMeta(op.MetaK)), okStatus(op)
}

// Bytes handles a raw bytes call ("tag;data").
func (s *Std) Bytes(arg *[]byte) ([]byte, *erpc.Status) {
	tag, data := splitPlain(string(*arg))
	e, op := enter(s, "call", tag, string(*arg))
	defer leave(e, s, "call")
	if op == nil {
		return []byte(tag + ";"), nil
	}
	if op.HPanic {
		op.doPanic()
	}
	if st := op.handlerStatus(); st != nil {
		return nil, st
	}
	s.SetMeta("Rtag", tag)
	s.SetMeta("Mk-Echo", string(s.PeekMeta(op.MetaK)))
	s.SetMeta("Veto-Key", string(s.PeekMeta(op.MetaK)))
	return []byte(tag + ";" + Transform(data) + "|" + string(s.PeekMeta(op.MetaK))), okStatus(op)
}

// Blank answers with what it was given, possibly nothing at all: "blank:<len>:<bytes>".
func (s *Std) Blank(arg *[]byte) ([]byte, *erpc.Status) {
	simrt.YieldQuiet()
	if e := curEnv; e != nil {
		e.Probe("blank-handler-ran")
	}
	return []byte(fmt.Sprintf("blank:%d:%s", len(*arg), *arg)), nil
}

// Void takes whatever it is given and answers without a result (an empty reply body).
func (s *Std) Void(arg *[]byte) ([]byte, *erpc.Status) {
	simrt.YieldQuiet()
	if e := curEnv; e != nil {
		e.Probe("void-handler-ran")
	}
	return nil, nil
}

// Note handles a Payload push.
func (s *StdPush) Note(arg *Payload) *erpc.Status { return noteImpl(s, arg) }

// NoteFn and (*StdPushMx).NoteMx are the same push handler in the two function forms.
func NoteFn(ctx erpc.PushCtx, arg *Payload) *erpc.Status { return noteImpl(ctx, arg) }

type StdPushMx struct{ erpc.PushCtx }

func (s *StdPushMx) NoteMx(arg *Payload) *erpc.Status { return noteImpl(s, arg) }

func noteImpl(s erpc.PushCtx, arg *Payload) *erpc.Status {
	e, op := enter(s, "push", arg.Tag, arg.String())
	dirtyMeta(s, op)
	leave(e, s, "push")
	return nil
}

// NotePlain handles a string push.
func (s *StdPush) NotePlain(arg *string) *erpc.Status {
	tag, _ := splitPlain(*arg)
	e, _ := enter(s, "push", tag, *arg)
	leave(e, s, "push")
	return nil
}

// Routes are the service method names of the standard handlers under the current mapper.
type Routes struct {
	Echo, Plain, Bytes, Note, NotePlain string
	// Blank names a handler that accepts an empty body and answers with what it got
	Blank string
	// Void names a handler that answers with an empty body
	Void string
	// EchoFn and EchoMx name the Echo handler registered in the two function forms (empty: not registered)
	EchoFn, EchoMx string
	// NoteFn and NoteMx: the same for the Note push handler
	NoteFn, NoteMx string
}

// RegisterStd registers the standard handlers on p.
func (e *Env) RegisterStd(p erpc.Peer) Routes {
	calls := p.RouteCall(new(Std))
	pushes := p.RoutePush(new(StdPush))
	var r Routes
	find := func(list []string, suffix string) string {
		for _, s := range list {
			if strings.HasSuffix(strings.ToLower(s), suffix) {
				return s
			}
		}
		panic(fmt.Sprintf("route %q not in %v", suffix, list))
	}
	r.Echo = find(calls, "echo")
	if fn := p.RouteCallFunc(EchoFn); fn != "" {
		r.EchoFn = fn
	}
	if mx := p.RouteCallFunc((*StdMx).EchoMx); mx != "" {
		r.EchoMx = mx
	}
	r.Plain = find(calls, "plain")
	r.Bytes = find(calls, "bytes")
	r.Blank = find(calls, "blank")
	r.Void = find(calls, "void")
	if e.Opt.Mapper == "rpc" {
		r.NotePlain = find(pushes, "noteplain")
	} else {
		r.NotePlain = find(pushes, "note_plain")
	}
	for _, s := range pushes {
		if s != r.NotePlain {
			r.Note = s
		}
	}
	r.NoteFn = p.RoutePushFunc(NoteFn)
	r.NoteMx = p.RoutePushFunc((*StdPushMx).NoteMx)
	return r
}

// settings builds the message settings of an op.
func (op *Op) settings() []erpc.MessageSetting {
	var st []erpc.MessageSetting
	if op.Codec != 0 {
		st = append(st, erpc.WithBodyCodec(op.Codec))
	}
	if op.MetaK != "" {
		st = append(st, erpc.WithAddMeta(op.MetaK, op.MetaV))
	}
	for _, ms := range op.MetaSteps {
		switch ms[0] {
		case "add":
			st = append(st, erpc.WithAddMeta(ms[1], ms[2]))
		case "set":
			st = append(st, erpc.WithSetMeta(ms[1], ms[2]))
		case "del":
			st = append(st, erpc.WithDelMeta(ms[1]))
		}
	}
	if len(op.Pipe) > 0 {
		st = append(st, erpc.WithXferPipe(op.Pipe...))
	}
	if op.AcceptCodec != 0 {
		st = append(st, erpc.WithAcceptBodyCodec(op.AcceptCodec))
	}
	if op.CtxTimeout > 0 {
		ctx, _ := context.WithTimeout(context.Background(), op.CtxTimeout) // released when the (fake) deadline passes
		st = append(st, erpc.WithContext(ctx))
	}
	return st
}

// Issue performs op on sess with the standard routes and records the outcome in op.
// ch is the completion channel for async calls (nil: private).
func (e *Env) Issue(sess erpc.Session, rt Routes, op *Op, ch chan erpc.CallCmd) {
	simrt.Yield()
	op.Issued = true
	op.IssuedAt = e.Obs.step()
	var arg, res interface{}
	var method string
	switch op.Route {
	case "echo":
		method, arg, res = rt.Echo, &Payload{Tag: op.Tag, Data: op.Data, N: op.N}, new(Payload)
		// the same handler is registered in three forms: controller method, function, method expression
		if k := op.Idx % 3; k == 1 && rt.EchoFn != "" {
			method = rt.EchoFn
		} else if k == 2 && rt.EchoMx != "" {
			method = rt.EchoMx
		}
	case "plain":
		s := op.Tag + ";" + op.Data
		method, arg, res = rt.Plain, &s, new(string)
	case "bytes":
		b := []byte(op.Tag + ";" + op.Data)
		method, arg, res = rt.Bytes, &b, new([]byte)
	case "note":
		method, arg = rt.Note, &Payload{Tag: op.Tag, Data: op.Data, N: op.N}
		if k := op.Idx % 3; k == 1 && rt.NoteFn != "" {
			method = rt.NoteFn
		} else if k == 2 && rt.NoteMx != "" {
			method = rt.NoteMx
		}
	case "note_plain":
		s := op.Tag + ";" + op.Data
		method, arg = rt.NotePlain, &s
	default:
		method, arg, res = op.Route, &Payload{Tag: op.Tag, Data: op.Data, N: op.N}, new(Payload)
	}
	record := func(st *erpc.Status) {
		op.OK = st.OK()
		if !st.OK() {
			op.Code, op.Msg, op.Cause = st.Code(), st.Msg(), causeString(st)
		}
	}
	switch op.Kind {
	case "push":
		st := sess.Push(method, arg, op.settings()...)
		record(st)
		op.Done = true
		op.DoneAt = e.Obs.step()
		return
	case "call":
		cmd := sess.Call(method, arg, res, op.settings()...)
		e.complete(op, cmd, res)
	default:
		own := ch == nil
		if own {
			ch = make(chan erpc.CallCmd, 1)
		}
		cmd := sess.AsyncCall(method, arg, res, ch, op.settings()...)
		simrt.WaitClosed(cmd.Done())
		if own {
			select {
			case c := <-ch:
				if c != cmd {
					e.Fail("completion-channel-wrong-cmd", "op %s: channel delivered another command", op.Tag)
				}
				op.ChanCount++
			default:
				e.Fail("completion-not-delivered-to-channel", "op %s: Done() closed but nothing on the completion channel", op.Tag)
			}
			select {
			case <-ch:
				op.ChanCount++
				e.Fail("completion-delivered-twice", "op %s: delivered twice to its completion channel", op.Tag)
			default:
			}
		}
		e.complete(op, cmd, res)
	}
}

func causeString(st *erpc.Status) string {
	if c := st.Cause(); c != nil {
		return c.Error()
	}
	return ""
}

func (e *Env) complete(op *Op, cmd erpc.CallCmd, res interface{}) {
	simrt.Yield()
	st := cmd.Status()
	op.Done = true
	op.DoneAt = e.Obs.step()
	op.OK = st.OK()
	op.Seq = cmd.Output().Seq()
	if !st.OK() {
		op.Code, op.Msg, op.Cause = st.Code(), st.Msg(), causeString(st)
	}
	switch v := res.(type) {
	case *Payload:
		op.Result = *v
		op.ResultStr = v.String()
	case *string:
		tag, data := splitPlain(*v)
		op.Result = Payload{Tag: tag, Data: data}
		op.ResultStr = *v
	case *[]byte:
		tag, data := splitPlain(string(*v))
		op.Result = Payload{Tag: tag, Data: data}
		op.ResultStr = string(*v)
	}
	op.RMeta = map[string]string{}
	if im := safeInputMeta(cmd); im != nil {
		im.VisitAll(func(k, v []byte) { op.RMeta[string(k)] = string(v) })
	}
}

func safeInputMeta(cmd erpc.CallCmd) (a *utils.Args) {
	defer func() { recover() }()
	return cmd.InputMeta()
}

// BadResult cannot be marshalled by any codec (func field).
type BadResult struct {
	Tag string `json:"tag"`
	F   func() `json:"f"`
}

// Weird returns a value no codec can encode: the success reply cannot be packed.
func (s *Std) Weird(arg *Payload) (*BadResult, *erpc.Status) {
	e, _ := enter(s, "call", arg.Tag, arg.String())
	defer leave(e, s, "call")
	return &BadResult{Tag: arg.Tag, F: func() {}}, nil
}

// Big returns a payload whose size is arg.N bytes (to exceed a small message size limit).
func (s *Std) Big(arg *Payload) (*Payload, *erpc.Status) {
	e, _ := enter(s, "call", arg.Tag, arg.String())
	defer leave(e, s, "call")
	n := int(arg.N)
	if n < 0 || n > 1<<20 {
		n = 0
	}
	return &Payload{Tag: arg.Tag, Data: strings.Repeat("x", n)}, nil
}
