package world

import (
	"context"
	"fmt"

	"git.apache.org/thrift.git/lib/go/thrift"
)

// Payload is the body type used by scenarios.  One Go type serves every body
// codec: encoding/json and encoding/xml by reflection, the form codec by struct
// fields, gogo protobuf through the legacy struct-tag path, and thrift through
// hand-written TStruct methods.  Tag is unique per message so that any byte
// seen anywhere is attributable to exactly one send.
type Payload struct {
	Tag  string `protobuf:"bytes,1,opt,name=tag,proto3" json:"tag" xml:"tag" form:"tag"`
	Data string `protobuf:"bytes,2,opt,name=data,proto3" json:"data" xml:"data" form:"data"`
	N    int64  `protobuf:"varint,3,opt,name=n,proto3" json:"n" xml:"n" form:"n"`
}

// Reset implements proto.Message.
func (p *Payload) Reset() { *p = Payload{} }

// String implements proto.Message.
func (p *Payload) String() string { return fmt.Sprintf("{%s %q %d}", p.Tag, p.Data, p.N) }

// ProtoMessage implements proto.Message.
func (*Payload) ProtoMessage() {}

// Write implements thrift.TStruct.
func (p *Payload) Write(o thrift.TProtocol) error {
	if err := o.WriteStructBegin("Payload"); err != nil {
		return err
	}
	wr := func(name string, id int16, typ thrift.TType, f func() error) error {
		if err := o.WriteFieldBegin(name, typ, id); err != nil {
			return err
		}
		if err := f(); err != nil {
			return err
		}
		return o.WriteFieldEnd()
	}
	if err := wr("tag", 1, thrift.STRING, func() error { return o.WriteString(p.Tag) }); err != nil {
		return err
	}
	if err := wr("data", 2, thrift.STRING, func() error { return o.WriteString(p.Data) }); err != nil {
		return err
	}
	if err := wr("n", 3, thrift.I64, func() error { return o.WriteI64(p.N) }); err != nil {
		return err
	}
	if err := o.WriteFieldStop(); err != nil {
		return err
	}
	return o.WriteStructEnd()
}

// Read implements thrift.TStruct.
func (p *Payload) Read(i thrift.TProtocol) error {
	if _, err := i.ReadStructBegin(); err != nil {
		return err
	}
	for {
		_, typ, id, err := i.ReadFieldBegin()
		if err != nil {
			return err
		}
		if typ == thrift.STOP {
			break
		}
		switch {
		case id == 1 && typ == thrift.STRING:
			if p.Tag, err = i.ReadString(); err != nil {
				return err
			}
		case id == 2 && typ == thrift.STRING:
			if p.Data, err = i.ReadString(); err != nil {
				return err
			}
		case id == 3 && typ == thrift.I64:
			if p.N, err = i.ReadI64(); err != nil {
				return err
			}
		default:
			if err = i.Skip(typ); err != nil {
				return err
			}
		}
		if err = i.ReadFieldEnd(); err != nil {
			return err
		}
	}
	return i.ReadStructEnd()
}

var _ = context.Background
