// Package world is the scenario harness: it builds real teleport peers on top of
// simnet inside a simrt run, installs the verif hooks, and records what handlers,
// plugins, callers and the wire observed.
package world

import (
	crand "crypto/rand"
	"fmt"
	"io"
	"net"
	"os"
	"sort"
	"strings"
	"sync"
	"testing"
	"testing/synctest"
	"time"

	erpc "github.com/henrylee2cn/erpc/v6"
	"github.com/henrylee2cn/erpc/v6/socket"

	"simrt"
	"verif/simnet"
)

// FatalError is what Fatalf turns into under simulation (instead of os.Exit).
type FatalError struct{ Msg string }

func (f FatalError) Error() string { return "erpc.Fatalf: " + f.Msg }

type nopOutputter struct{}

func (nopOutputter) Output(int, []byte, erpc.LoggerLevel) {}
func (nopOutputter) Flush() error                         { return nil }

var (
	initOnce    sync.Once
	curEnv      *Env
	printDetail bool // peers of the current run render message bodies in the run log
)

func processInit() {
	initOnce.Do(func() {
		// drain the default logger (its goroutine was started at package initialisation and touches an
		// instrumented pool) before any simulated run starts, then silence it for good
		erpc.FlushLogger()
		time.Sleep(20 * time.Millisecond)
		erpc.SetLoggerOutputter(nopOutputter{})
		erpc.SetLoggerLevel("OFF")
		// NewPeer prints the process id once per process (sync.Once): do it now, so that it never costs a run two
		// extra scheduler steps depending on whether an earlier run of the process created a peer
		erpc.NewPeer(erpc.PeerConfig{}).Close()
		erpc.VerifSetSpawn(func(fn func()) bool {
			simrt.GoNamed(simrt.SystemTaskName, fn)
			return true
		})
		erpc.VerifSetDial(func(d *erpc.Dialer, addr string) (net.Conn, error) {
			if curEnv == nil {
				return nil, fmt.Errorf("no simulated network")
			}
			return curEnv.Net.Dial(addr)
		})
		erpc.VerifSetOnStatus(func(sess erpc.Session, from, to int32) {
			if e := curEnv; e != nil {
				e.Obs.status(sess, from, to)
			}
		})
		erpc.VerifSetOnFatal(func(msg string) {
			if e := curEnv; e != nil {
				e.Fatals = append(e.Fatals, msg)
			}
			panic(FatalError{msg})
		})
	})
}

// Options of one simulated run.
type Options struct {
	Seed  uint64
	Sim   simrt.Config
	Net   simnet.Config
	Limit uint32 // socket message size limit (0: default)
	// LogLevel "OFF" or "TRACE": with TRACE teleport's run-log formatting code executes (output is discarded)
	LogLevel   string
	ReaderSize int // bufio size of sockets (0: default 1024)
	Mapper     string
}

// Env is the world of one run.
type Env struct {
	Opt     Options
	Gen     *simrt.Rand // scenario-level choices made while the run executes
	Net     *simnet.Net
	Sched   *simrt.Sched
	Obs     *Observer
	Probes  map[string]int
	Fatals  []string
	peers   []erpc.Peer
	Notes   []string
	OpByTag map[string]*Op
	// AllowUnknownArgs: handlers may legitimately receive arguments that carry no known tag (hostile/empty bodies)
	AllowUnknownArgs bool
}

// Probe counts that a rare condition was reached.
func (e *Env) Probe(name string) { e.Probes[name]++ }

// Fail records a violation (class is the stable violation class).
func (e *Env) Fail(class, format string, a ...any) { e.Sched.Fail(class, format, a...) }

// Outcome of a run.
type Outcome struct {
	Res      *simrt.Result
	Env      *Env
	Deadlock string // synctest end-of-bubble complaint, if any
	Wall     time.Duration
}

// Classes returns the sorted distinct violation classes.
func (o *Outcome) Classes() []string {
	m := map[string]bool{}
	for _, f := range o.Res.Failures {
		c := f
		if i := strings.Index(f, ": "); i >= 0 {
			c = f[:i]
		}
		m[c] = true
	}
	var out []string
	for c := range m {
		out = append(out, c)
	}
	sort.Strings(out)
	return out
}

// Run executes scenario inside a fresh synctest bubble under the simrt scheduler.
func Run(t *testing.T, opt Options, scenario func(e *Env)) *Outcome {
	processInit()
	registerFilters()
	out := &Outcome{}
	t0 := time.Now()
	env := &Env{Opt: opt, Probes: map[string]int{}, OpByTag: map[string]*Op{}}
	env.Gen = simrt.NewRand(simrt.Mix(opt.Seed, 11))
	env.Obs = newObserver(env)

	// process-wide knobs that teleport keeps in package variables
	oldRand := crand.Reader
	crand.Reader = simrt.NewRand(simrt.Mix(opt.Seed, 12))
	lim := opt.Limit
	if lim == 0 {
		// teleport's default read limit is 1 GB: garbage in a length field would make the simulated peer
		// really allocate that much.  Scenarios that do not care use 4 MB.
		lim = 4 << 20
	}
	socket.SetMessageSizeLimit(lim)
	if opt.ReaderSize > 0 {
		socket.VerifSetReaderSize(opt.ReaderSize)
	} else {
		socket.VerifSetReaderSize(1024)
	}
	lvl := opt.LogLevel
	if lvl == "" {
		// one run in six executes teleport's run-log code (formatting only: the output is discarded), half of
		// them with message bodies rendered (PeerConfig.PrintDetail); drawn from the seed without touching
		// the scenario's random stream
		lvl = "OFF"
		if simrt.Mix(opt.Seed, 77)%6 == 0 {
			lvl = "TRACE"
		}
	}
	printDetail = lvl != "OFF" && simrt.Mix(opt.Seed, 78)%2 == 0
	erpc.SetLoggerLevel(lvl)
	switch opt.Mapper {
	case "rpc":
		erpc.SetServiceMethodMapper(erpc.RPCServiceMethodMapper)
	default:
		erpc.SetServiceMethodMapper(erpc.HTTPServiceMethodMapper)
	}
	socket.SetDefaultProtoFunc(socket.RawProtoFunc)
	defer func() {
		crand.Reader = oldRand
		socket.SetMessageSizeLimit(0)
		curEnv = nil
		out.Wall = time.Since(t0)
	}()

	// synctest.Test calls t.FailNow (runtime.Goexit) when the bubble's test is marked failed - which the testing
	// package does on its own when the race detector has reported anything.  Run it on a helper goroutine so
	// that the caller survives and can still collect the outcome.
	doneCh := make(chan struct{})
	go func() {
		defer close(doneCh)
		defer func() {
			if p := recover(); p != nil {
				out.Deadlock = fmt.Sprint(p)
			}
		}()
		synctest.Test(t, func(t *testing.T) {
			env.Net = simnet.New(opt.Net, simrt.NewRand(simrt.Mix(opt.Seed, 13)))
			curEnv = env
			cfg := opt.Sim
			cfg.Seed = opt.Seed
			out.Res = simrt.Run(cfg, func() {
				env.Sched = simrt.Active()
				env.Sched.OnStep = nil
				scenario(env)
			})
			curEnv = nil
		})
	}()
	<-doneCh
	out.Env = env
	if out.Res == nil {
		// the bubble blew up before Run returned: treat as infrastructure trouble
		fmt.Fprintf(os.Stderr, "world.Run: simulation did not complete: %s\n", out.Deadlock)
		out.Res = &simrt.Result{Failures: []string{"infra: simulation did not complete: " + out.Deadlock}}
	}
	return out
}

var _ io.Reader = (*simrt.Rand)(nil)

// NewPeer creates a teleport peer with the recording plugin first.
func (e *Env) NewPeer(name string, cfg erpc.PeerConfig, plugins ...erpc.Plugin) erpc.Peer {
	if cfg.Network == "" {
		cfg.Network = "tcp"
	}
	if cfg.DefaultBodyCodec == "" {
		cfg.DefaultBodyCodec = "json" // importing thriftproto switches the process default to thrift
	}
	if printDetail {
		cfg.PrintDetail = true
	}
	p := erpc.NewPeer(cfg, plugins...)
	e.peers = append(e.peers, p)
	e.Obs.peerNames[p] = name
	return p
}

// Serve starts an accept loop for peer on a simulated listener.
func (e *Env) Serve(p erpc.Peer, addr string, proto ...erpc.ProtoFunc) *simnet.Listener {
	l, err := e.Net.Listen(addr)
	if err != nil {
		panic(err)
	}
	simrt.GoNamed("accept-loop", func() {
		simrt.SetDaemon()
		erpc.VerifServeListener(p, l, proto...)
	})
	return l
}

// ServePair connects two peers with ServeConn on both ends (no dialer, no redial).
// It returns once both sessions exist.
func (e *Env) ServePair(a, b erpc.Peer, protoA, protoB erpc.ProtoFunc) (sa, sb erpc.Session, ca, cb *simnet.Conn) {
	ca, cb = e.Net.Pair()
	var stA, stB *erpc.Status
	done := &Cnt{}
	simrt.GoNamed("serveconn", func() {
		sb, stB = b.ServeConn(cb, protoB)
		done.Inc()
	})
	sa, stA = a.ServeConn(ca, protoA)
	simrt.WaitCond(func() bool { return done.Get() == 1 })
	if !stA.OK() || !stB.OK() {
		e.Notes = append(e.Notes, fmt.Sprintf("ServePair: %v %v", stA, stB))
	}
	return
}

// CloseAll closes every peer created in this run (ignoring errors).
func (e *Env) CloseAll() {
	// reverse creation order: clients (created last) go first, so that a client with an unlimited
	// redial budget is not left redialing a server that has already been closed
	for i := len(e.peers) - 1; i >= 0; i-- {
		p := e.peers[i]
		func() {
			defer func() { recover() }()
			p.Close()
		}()
	}
}

// Until polls cond (which may call instrumented code) every 50us of fake time.
func (e *Env) Until(cond func() bool) {
	for i := 0; !cond(); i++ {
		if i > 100000 {
			e.Fail("infra-until-timeout", "condition never became true")
			return
		}
		simrt.Sleep(50 * time.Microsecond)
	}
}

// CheckSettled must be called right after simrt.WaitQuiescent: every task that is still parked must be
// waiting for network input (session readers, accept loops).  Anything else - a task parked on a mutex, a
// wait-group, a map - is stuck for good, because nothing in the system can run any more.
func (e *Env) CheckSettled(class string, info ...string) {
	parked, native := e.Sched.Snapshot()
	for _, p := range parked {
		if strings.Contains(p, "@netread") || strings.Contains(p, "@accept") || strings.Contains(p, "@user") || strings.Contains(p, "@waitchan") {
			continue
		}
		e.Fail(class, "task parked forever at quiescence: %s %s", p, strings.Join(info, " "))
	}
	// a task blocked natively (on a channel teleport owns: a graceful close waiting for its counter, a
	// completion channel nobody drains) when nothing else can run any more will never be woken either
	for _, n := range native {
		if n == "" {
			n = "(goroutine started by teleport)"
		}
		e.Probe("native-blocked-at-quiescence")
		e.Fail(class, "task blocked forever on a channel at quiescence: %s %s", n, strings.Join(info, " "))
	}
}

// Cnt is a counter shared by harness tasks that rely on the scheduler token instead of locks; its methods are
// invisible to the race detector (no report, no happens-before edge).
type Cnt struct{ n int }

//go:norace
func (c *Cnt) Inc() { c.n++ }

//go:norace
func (c *Cnt) Dec() { c.n-- }

//go:norace
func (c *Cnt) Get() int { return c.n }
