package world

import (
	"bufio"
	"net"
	"net/http"

	erpc "github.com/henrylee2cn/erpc/v6"
	"github.com/henrylee2cn/erpc/v6/mixer/websocket"
	"github.com/henrylee2cn/erpc/v6/mixer/websocket/jsonSubProto"
	"github.com/henrylee2cn/erpc/v6/mixer/websocket/pbSubProto"
	wsx "github.com/henrylee2cn/erpc/v6/mixer/websocket/websocket"
	"github.com/henrylee2cn/erpc/v6/socket"

	"simrt"
	"verif/simnet"
)

// IsWS reports whether proto is one of the websocket sub-protocols.
func IsWS(proto string) bool { return proto == "ws-json" || proto == "ws-pb" }

// WSSubProto returns the sub-protocol constructor of a websocket protocol name.
func WSSubProto(proto string) erpc.ProtoFunc {
	if proto == "ws-pb" {
		return pbSubProto.NewPbSubProtoFunc()
	}
	return jsonSubProto.NewJSONSubProtoFunc()
}

// WSClientPlugin is the dial plugin a websocket client peer needs.
func WSClientPlugin() erpc.Plugin { return websocket.NewDialPlugin("/") }

type hijackWriter struct {
	conn net.Conn
	brw  *bufio.ReadWriter
	hdr  http.Header
}

func (h *hijackWriter) Header() http.Header         { return h.hdr }
func (h *hijackWriter) Write(b []byte) (int, error) { return h.brw.Write(b) }
func (h *hijackWriter) WriteHeader(int)             {}
func (h *hijackWriter) Hijack() (net.Conn, *bufio.ReadWriter, error) {
	return h.conn, h.brw, nil
}

// ServeWS accepts websocket connections for peer p on a simulated listener.  It replaces
// net/http.Server: each accepted connection is read as one HTTP upgrade request and handed to the
// real websocket handler of the mixer (which performs the handshake and calls peer.ServeConn).
func (e *Env) ServeWS(p erpc.Peer, addr string, proto string) *simnet.Listener {
	l, err := e.Net.Listen(addr)
	if err != nil {
		panic(err)
	}
	h := websocket.NewServeHandler(p, nil, WSSubProto(proto))
	simrt.GoNamed("ws-accept-loop", func() {
		simrt.SetDaemon()
		for {
			c, err := l.Accept()
			if err != nil {
				return
			}
			simrt.GoNamed("ws-conn", func() {
				simrt.SetDaemon()
				br := bufio.NewReader(c)
				req, err := http.ReadRequest(br)
				if err != nil {
					c.Close()
					return
				}
				req.RemoteAddr = c.RemoteAddr().String()
				w := &hijackWriter{conn: c, brw: bufio.NewReadWriter(br, bufio.NewWriter(c)), hdr: http.Header{}}
				h.ServeHTTP(w, req)
			})
		}
	})
	return l
}

// NewWSPair performs the websocket handshake between the two ends of a simulated connection (real client
// and server handshake code) and returns raw peers speaking the sub-protocol inside websocket frames.
func NewWSPair(e *Env, ca, cb *simnet.Conn, proto string) (*RawPeer, *RawPeer) {
	var srvSock *RawPeer
	done := false
	handler := wsx.Handler(func(c *wsx.Conn) {
		srvSock = &RawPeer{Conn: cb, Sock: socketNew(c, websocket.NewWsProtoFunc(WSSubProto(proto)))}
		done = true
		simrt.WaitCond(func() bool { return cb.IsClosed() || cb.IsBroken() })
	})
	simrt.GoNamed("ws-server-handshake", func() {
		simrt.SetDaemon()
		br := bufio.NewReader(cb)
		req, err := http.ReadRequest(br)
		if err != nil {
			done = true
			return
		}
		req.RemoteAddr = cb.RemoteAddr().String()
		w := &hijackWriter{conn: cb, brw: bufio.NewReadWriter(br, bufio.NewWriter(cb)), hdr: http.Header{}}
		handler.ServeHTTP(w, req)
	})
	cfg, err := wsx.NewConfig("ws://"+cb.LocalAddr().String()+"/", "ws://"+ca.LocalAddr().String()+"/")
	if err != nil {
		return nil, nil
	}
	cc, err := wsx.NewClient(cfg, ca)
	if err != nil {
		return nil, nil
	}
	simrt.WaitCond(func() bool { return done })
	if srvSock == nil {
		return nil, nil
	}
	return &RawPeer{Conn: ca, Sock: socketNew(cc, websocket.NewWsProtoFunc(WSSubProto(proto)))}, srvSock
}

func socketNew(c net.Conn, pf erpc.ProtoFunc) socket.Socket { return socket.NewSocket(c, pf) }
