package world

import (
	"github.com/henrylee2cn/erpc/v6/codec"
	"github.com/henrylee2cn/erpc/v6/socket"

	erpc "github.com/henrylee2cn/erpc/v6"

	"verif/simnet"
)

// RawPeer is a scripted remote end: it speaks through the real protocol
// implementation (so its frames are well-formed unless it chooses otherwise) but
// is free to send anything, in any order, or raw bytes.
type RawPeer struct {
	Conn *simnet.Conn
	Sock socket.Socket
}

// NewRawPeer wraps one end of a simulated connection.
func NewRawPeer(c *simnet.Conn, pf erpc.ProtoFunc) *RawPeer {
	return &RawPeer{Conn: c, Sock: socket.NewSocket(c, pf)}
}

// RawMsg is what the raw peer read.
type RawMsg struct {
	Seq    int32
	Mtype  byte
	Method string
	Codec  byte
	Body   []byte
	Meta   string
	Pipe   []byte
	Err    error
}

// Read reads one frame (the body is kept as bytes where the protocol allows it).
func (r *RawPeer) Read() RawMsg {
	m := socket.GetMessage(socket.WithNewBody(func(socket.Header) interface{} { return new([]byte) }))
	defer socket.PutMessage(m)
	err := r.Sock.ReadMessage(m)
	out := RawMsg{Err: err, Seq: m.Seq(), Mtype: m.Mtype(), Method: m.ServiceMethod(), Codec: m.BodyCodec(), Meta: string(m.Meta().QueryString())}
	out.Pipe = append([]byte(nil), m.XferPipe().IDs()...)
	if b, ok := m.Body().(*[]byte); ok && b != nil {
		out.Body = append([]byte(nil), (*b)...)
	}
	return out
}

// ReadPayload reads one frame decoding the body as a Payload (needed for protocols that
// decode the body while reading the frame, e.g. thrift-struct).
func (r *RawPeer) ReadPayload() (RawMsg, *Payload) {
	p := new(Payload)
	m := socket.GetMessage(socket.WithNewBody(func(socket.Header) interface{} { return p }))
	defer socket.PutMessage(m)
	err := r.Sock.ReadMessage(m)
	out := RawMsg{Err: err, Seq: m.Seq(), Mtype: m.Mtype(), Method: m.ServiceMethod(), Codec: m.BodyCodec(), Meta: string(m.Meta().QueryString())}
	out.Pipe = append([]byte(nil), m.XferPipe().IDs()...)
	return out, p
}

// Send writes one frame through the real Pack of the protocol.
func (r *RawPeer) Send(mtype byte, seq int32, method string, bodyCodec byte, body interface{}, stat *erpc.Status, meta [][2]string, pipe []byte) error {
	m := socket.GetMessage()
	defer socket.PutMessage(m)
	m.SetMtype(mtype)
	m.SetSeq(seq)
	m.SetServiceMethod(method)
	m.SetBodyCodec(bodyCodec)
	if body != nil {
		m.SetBody(body)
	}
	if stat != nil {
		m.SetStatus(stat)
	}
	for _, kv := range meta {
		m.Meta().Add(kv[0], kv[1])
	}
	if len(pipe) > 0 {
		if err := m.XferPipe().Append(pipe...); err != nil {
			return err
		}
	}
	return r.Sock.WriteMessage(m)
}

// Encode marshals v with a registered body codec.
func Encode(id byte, v interface{}) []byte {
	c, err := codec.Get(id)
	if err != nil {
		return nil
	}
	b, _ := c.Marshal(v)
	return b
}
