package world

import (
	"fmt"
	"strings"
	"sync"
	"time"

	erpc "github.com/henrylee2cn/erpc/v6"
	"github.com/henrylee2cn/erpc/v6/codec"
	"github.com/henrylee2cn/erpc/v6/proto/httproto"
	"github.com/henrylee2cn/erpc/v6/proto/jsonproto"
	"github.com/henrylee2cn/erpc/v6/proto/pbproto"
	"github.com/henrylee2cn/erpc/v6/proto/rawproto"
	"github.com/henrylee2cn/erpc/v6/proto/thriftproto"
	"github.com/henrylee2cn/erpc/v6/xfer/gzip"
	"github.com/henrylee2cn/erpc/v6/xfer/md5"

	"simrt"
)

// Filter ids registered for every run.
const (
	FGzip1 = '1'
	FGzip5 = 'g'
	FGzip9 = '9'
	FMd5   = 'm'
)

var regOnce sync.Once

// HighCodecID is the id of a body codec the harness registers to cover ids above 127.
const HighCodecID = 0xC8

type highCodec struct{}

func (highCodec) Name() string { return "verif-high" }
func (highCodec) ID() byte     { return HighCodecID }
func (highCodec) Marshal(v interface{}) ([]byte, error) {
	c, _ := codec.Get('j')
	return c.Marshal(v)
}
func (highCodec) Unmarshal(b []byte, v interface{}) error {
	c, _ := codec.Get('j')
	return c.Unmarshal(b, v)
}

func registerFilters() {
	regOnce.Do(func() {
		codec.Reg(highCodec{})
		gzip.Reg(FGzip1, "gzip1", 1)
		gzip.Reg(FGzip5, "gzip", 5)
		gzip.Reg(FGzip9, "gzip9", 9)
		md5.Reg(FMd5, "md5")
	})
}

// AllProtos lists every shipped wire protocol, the websocket sub-protocols included.
func AllProtos() []string { return append(StreamProtos(), "ws-json", "ws-pb") }

// StreamProtos lists the wire protocols that run directly on a byte stream.
func StreamProtos() []string {
	return []string{"raw", "json", "pb", "thrift-binary", "thrift-struct", "http"}
}

// ProtoFunc returns the constructor of a wire protocol by name.
func ProtoFunc(name string) erpc.ProtoFunc {
	switch name {
	case "raw":
		return rawproto.NewRawProtoFunc()
	case "json":
		return jsonproto.NewJSONProtoFunc()
	case "pb":
		return pbproto.NewPbProtoFunc()
	case "thrift-binary":
		return thriftproto.NewBinaryProtoFunc()
	case "thrift-struct":
		return thriftproto.NewStructProtoFunc()
	case "ws-json", "ws-pb":
		return WSSubProto(name)
	case "http":
		// NewHTTProtoFunc switches the process-wide mapper to HTTP as a side effect; restore the run's choice
		pf := httproto.NewHTTProtoFunc()
		if e := curEnv; e != nil && e.Opt.Mapper == "rpc" {
			erpc.SetServiceMethodMapper(erpc.RPCServiceMethodMapper)
		}
		return pf
	}
	panic("unknown proto " + name)
}

const (
	alphaSafe = "abcdefghijklmnopqrstuvwxyzABCDEFGHIJKLMNOPQRSTUVWXYZ0123456789 _-.,"
	alphaHard = alphaSafe + "\"\\&=%<>/+;|'{}[]:\t#?"
)

// GenString draws a string of length n over an alphabet.
func GenString(r *simrt.Rand, n int, alpha string) string {
	b := make([]byte, n)
	for i := range b {
		b[i] = alpha[r.Intn(len(alpha))]
	}
	return string(b)
}

// Canonical metadata keys (MIME header canonical form, so that the http protocol's
// documented header mapping leaves them unchanged).
var metaKeys = []string{"Mk", "Mk-A", "Mk-B", "Trace-Id", "Xx"}

// ExtraMetaKeys are the keys of the further metadata entries some operations carry (added, overwritten and
// deleted again by message settings before the message is sent).
var ExtraMetaKeys = []string{"Ex-A", "Ex-B", "Ex-C", "Ex-D", "Ex-E"}

// genMetaSteps draws, from a stream of its own (so that the main stream of GenOp is not disturbed), a short
// history of metadata settings: adds, an overwrite, deletions of entries that are not the last one, adds after a
// deletion.
func genMetaSteps(op *Op, seed uint64) {
	r := simrt.NewRand(simrt.Mix(seed, 5000+uint64(op.Idx)))
	if !r.Chance(0.3) {
		return
	}
	val := func() string { return GenString(r, 1+r.Intn(10), alphaSafe[:62]) }
	n := 1 + r.Intn(4)
	perm := r.Perm(len(ExtraMetaKeys))
	var have []string
	for i := 0; i < n; i++ {
		k := ExtraMetaKeys[perm[i]]
		op.MetaSteps = append(op.MetaSteps, [3]string{"add", k, val()})
		have = append(have, k)
	}
	if r.Chance(0.3) {
		op.MetaSteps = append(op.MetaSteps, [3]string{"set", have[r.Intn(len(have))], val()})
	}
	if r.Chance(0.6) {
		// delete an entry (mostly not the last one), then perhaps add another
		i := r.Intn(len(have))
		if len(have) > 1 && r.Chance(0.7) {
			i = r.Intn(len(have) - 1)
		}
		op.MetaSteps = append(op.MetaSteps, [3]string{"del", have[i], ""})
		have = append(have[:i], have[i+1:]...)
		if r.Chance(0.6) && n < len(ExtraMetaKeys) {
			k := ExtraMetaKeys[perm[n]]
			op.MetaSteps = append(op.MetaSteps, [3]string{"add", k, val()})
			have = append(have, k)
		}
	}
	if len(have) > 1 && r.Chance(0.4) {
		op.HDelMeta = have[r.Intn(len(have)-1)]
	} else if op.MetaK != "" && len(have) > 0 && r.Chance(0.2) {
		op.HDelMeta = op.MetaK
	}
}

// GenOp draws one operation valid for proto.
func GenOp(r *simrt.Rand, idx int, seed uint64, proto string) *Op {
	op := &Op{Idx: idx, Tag: fmt.Sprintf("T%x.%d", seed&0xffffff, idx)}
	switch r.Intn(4) {
	case 0, 1:
		op.Kind = "call"
	case 2:
		op.Kind = "async"
	default:
		op.Kind = "push"
	}
	sizes := []int{0, 1, 3, 17, 60, 200, 900}
	n := sizes[r.Intn(len(sizes))]
	hard := r.Chance(0.35)
	op.N = int64(r.Uint64()>>40) - 1000
	op.MetaK = metaKeys[r.Intn(len(metaKeys))]
	op.MetaV = GenString(r, 1+r.Intn(12), alphaSafe[:62])
	if r.Chance(0.1) {
		op.CtxTimeout = time.Duration(50+r.Intn(950)) * time.Millisecond
	}
	if r.Chance(0.08) {
		op.MetaK, op.MetaV = "", "" // a message without any metadata
	} else if r.Chance(0.12) {
		op.MetaV = "" // a key with an empty value travels as a bare key in the query-string encoding of metadata
	}
	// route + codec
	routeKind := r.Intn(10)
	switch {
	case proto == "thrift-struct":
		op.Route, op.Codec = "echo", 't'
	case routeKind < 6:
		op.Route = "echo"
		cs := []byte{'j', 'p', 't', 'f', 'x'}
		if proto == "http" {
			cs = []byte{'j', 'p', 'f', 'x'}
		}
		op.Codec = cs[r.Intn(len(cs))]
	case routeKind < 8:
		op.Route, op.Codec = "plain", 's'
	default:
		op.Route, op.Codec = "bytes", []byte{'j', 'p', 's'}[r.Intn(3)]
	}
	if op.Route == "echo" && op.Kind != "push" && proto != "thrift-struct" && proto != "http" && r.Chance(0.1) {
		// the caller asks for the reply in another codec than the one it sends with
		op.AcceptCodec = []byte{'j', 'p', 't', 'f', 'x'}[r.Intn(5)]
	}
	if op.Kind == "push" {
		if op.Route == "plain" || op.Route == "bytes" {
			op.Route, op.Codec = "note_plain", 's'
		} else {
			op.Route = "note"
		}
	}
	alpha := alphaSafe
	if hard && op.Codec != 'x' {
		alpha = alphaHard
	}
	op.Data = GenString(r, n, alpha)
	// pipe
	switch proto {
	case "thrift-struct":
	case "http":
		if r.Chance(0.4) {
			op.Pipe = []byte{[]byte{FGzip1, FGzip5, FGzip9}[r.Intn(3)]}
		}
	default:
		if r.Chance(0.5) {
			k := 1 + r.Intn(3)
			for i := 0; i < k; i++ {
				op.Pipe = append(op.Pipe, []byte{FGzip1, FGzip5, FGzip9, FMd5}[r.Intn(4)])
			}
		}
	}
	if r.Chance(0.3) {
		op.HYield = r.Intn(6)
	}
	genMetaSteps(op, seed)
	return op
}

// ArgString is how a handler renders the argument of op (see Std handlers).
func ArgString(op *Op) string {
	switch op.Route {
	case "plain", "bytes", "note_plain":
		return op.Tag + ";" + op.Data
	}
	p := Payload{Tag: op.Tag, Data: op.Data, N: op.N}
	return p.String()
}

// TagOf extracts the tag from a handler-side argument rendering.
func TagOf(arg string) string {
	if strings.HasPrefix(arg, "{") {
		s := arg[1:]
		if i := strings.IndexByte(s, ' '); i >= 0 {
			return s[:i]
		}
		return s
	}
	if i := strings.IndexByte(arg, ';'); i >= 0 {
		return arg[:i]
	}
	return arg
}

// MetaHas reports whether the rendered metadata contains k=v.
// MetaKeys lists the metadata keys GenOp chooses from.
func MetaKeys() []string { return metaKeys }

func MetaHas(meta, k, v string) bool {
	for _, kv := range strings.Split(meta, "&") {
		if kv == k+"="+v {
			return true
		}
	}
	return false
}

// FindSession returns the session of p whose remote address is remote.
func (e *Env) FindSession(p erpc.Peer, remote string) erpc.Session {
	var found erpc.Session
	p.RangeSession(func(s erpc.Session) bool {
		if s.RemoteAddr().String() == remote {
			found = s
			return false
		}
		return true
	})
	return found
}
