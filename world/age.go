package world

import (
	"time"

	erpc "github.com/henrylee2cn/erpc/v6"

	"simrt"
)

// AgeHook is a PostDial/PostAccept plugin that gives the next session(s) of its peer a maximum age, the way the
// API documents it (PreSession.SetSessionAge in a connection hook; PeerConfig.DefaultSessionAge does the same
// for every session of a peer).  The age is a read deadline: when it passes, the session's reader gives up on
// a connection that is intact.  Deadline records when (on the simulated clock) the last session so marked
// will expire.
type AgeHook struct {
	Next     time.Duration // age for the next session; 0: leave it alone
	Sticky   bool          // keep marking (otherwise only the next session)
	Deadline time.Time
	Marked   int
}

func (a *AgeHook) Name() string { return "age-hook" }

func (a *AgeHook) mark(s erpc.PreSession) {
	if a.Next <= 0 {
		return
	}
	s.SetSessionAge(a.Next)
	a.Deadline = simrt.CeilingTimeNow().Add(a.Next)
	a.Marked++
	if !a.Sticky {
		a.Next = 0
	}
}

func (a *AgeHook) PostDial(s erpc.PreSession, isRedial bool) *erpc.Status { a.mark(s); return nil }
func (a *AgeHook) PostAccept(s erpc.PreSession) *erpc.Status              { a.mark(s); return nil }
